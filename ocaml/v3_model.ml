
(** val xorb : bool -> bool -> bool **)

let xorb b1 b2 =
  if b1 then if b2 then false else true else b2

(** val negb : bool -> bool **)

let negb = function
| true -> false
| false -> true

type nat =
| O
| S of nat

(** val fst : ('a1 * 'a2) -> 'a1 **)

let fst = function
| (x, _) -> x

(** val snd : ('a1 * 'a2) -> 'a2 **)

let snd = function
| (_, y) -> y

(** val length : 'a1 list -> nat **)

let rec length = function
| [] -> O
| _ :: l' -> S (length l')

(** val app : 'a1 list -> 'a1 list -> 'a1 list **)

let rec app l m =
  match l with
  | [] -> m
  | a :: l1 -> a :: (app l1 m)

type comparison =
| Eq
| Lt
| Gt

(** val compOpp : comparison -> comparison **)

let compOpp = function
| Eq -> Eq
| Lt -> Gt
| Gt -> Lt

module Coq__1 = struct
 (** val add : nat -> nat -> nat **)
 let rec add n0 m =
   match n0 with
   | O -> m
   | S p -> S (add p m)
end
include Coq__1

(** val sub : nat -> nat -> nat **)

let rec sub n0 m =
  match n0 with
  | O -> n0
  | S k -> (match m with
            | O -> n0
            | S l -> sub k l)

type positive =
| XI of positive
| XO of positive
| XH

type n =
| N0
| Npos of positive

type z =
| Z0
| Zpos of positive
| Zneg of positive

module Nat =
 struct
  (** val pred : nat -> nat **)

  let pred n0 = match n0 with
  | O -> n0
  | S u -> u

  (** val min : nat -> nat -> nat **)

  let rec min n0 m =
    match n0 with
    | O -> O
    | S n' -> (match m with
               | O -> O
               | S m' -> S (min n' m'))

  (** val even : nat -> bool **)

  let rec even = function
  | O -> true
  | S n1 -> (match n1 with
             | O -> false
             | S n' -> even n')

  (** val odd : nat -> bool **)

  let odd n0 =
    negb (even n0)

  (** val div2 : nat -> nat **)

  let rec div2 = function
  | O -> O
  | S n1 -> (match n1 with
             | O -> O
             | S n' -> S (div2 n'))

  (** val testbit : nat -> nat -> bool **)

  let rec testbit a = function
  | O -> odd a
  | S n1 -> testbit (div2 a) n1
 end

module Pos =
 struct
  (** val succ : positive -> positive **)

  let rec succ = function
  | XI p -> XO (succ p)
  | XO p -> XI p
  | XH -> XO XH

  (** val add : positive -> positive -> positive **)

  let rec add x y =
    match x with
    | XI p ->
      (match y with
       | XI q -> XO (add_carry p q)
       | XO q -> XI (add p q)
       | XH -> XO (succ p))
    | XO p ->
      (match y with
       | XI q -> XI (add p q)
       | XO q -> XO (add p q)
       | XH -> XI p)
    | XH -> (match y with
             | XI q -> XO (succ q)
             | XO q -> XI q
             | XH -> XO XH)

  (** val add_carry : positive -> positive -> positive **)

  and add_carry x y =
    match x with
    | XI p ->
      (match y with
       | XI q -> XI (add_carry p q)
       | XO q -> XO (add_carry p q)
       | XH -> XI (succ p))
    | XO p ->
      (match y with
       | XI q -> XO (add_carry p q)
       | XO q -> XI (add p q)
       | XH -> XO (succ p))
    | XH ->
      (match y with
       | XI q -> XI (succ q)
       | XO q -> XO (succ q)
       | XH -> XI XH)

  (** val pred_double : positive -> positive **)

  let rec pred_double = function
  | XI p -> XI (XO p)
  | XO p -> XI (pred_double p)
  | XH -> XH

  (** val pred_N : positive -> n **)

  let pred_N = function
  | XI p -> Npos (XO p)
  | XO p -> Npos (pred_double p)
  | XH -> N0

  (** val mul : positive -> positive -> positive **)

  let rec mul x y =
    match x with
    | XI p -> add y (XO (mul p y))
    | XO p -> XO (mul p y)
    | XH -> y

  (** val iter : ('a1 -> 'a1) -> 'a1 -> positive -> 'a1 **)

  let rec iter f x = function
  | XI n' -> f (iter f (iter f x n') n')
  | XO n' -> iter f (iter f x n') n'
  | XH -> f x

  (** val div2 : positive -> positive **)

  let div2 = function
  | XI p0 -> p0
  | XO p0 -> p0
  | XH -> XH

  (** val div2_up : positive -> positive **)

  let div2_up = function
  | XI p0 -> succ p0
  | XO p0 -> p0
  | XH -> XH

  (** val compare_cont : comparison -> positive -> positive -> comparison **)

  let rec compare_cont r x y =
    match x with
    | XI p ->
      (match y with
       | XI q -> compare_cont r p q
       | XO q -> compare_cont Gt p q
       | XH -> Gt)
    | XO p ->
      (match y with
       | XI q -> compare_cont Lt p q
       | XO q -> compare_cont r p q
       | XH -> Gt)
    | XH -> (match y with
             | XH -> r
             | _ -> Lt)

  (** val compare : positive -> positive -> comparison **)

  let compare =
    compare_cont Eq

  (** val eqb : positive -> positive -> bool **)

  let rec eqb p q =
    match p with
    | XI p0 -> (match q with
                | XI q0 -> eqb p0 q0
                | _ -> false)
    | XO p0 -> (match q with
                | XO q0 -> eqb p0 q0
                | _ -> false)
    | XH -> (match q with
             | XH -> true
             | _ -> false)

  (** val coq_Nsucc_double : n -> n **)

  let coq_Nsucc_double = function
  | N0 -> Npos XH
  | Npos p -> Npos (XI p)

  (** val coq_Ndouble : n -> n **)

  let coq_Ndouble = function
  | N0 -> N0
  | Npos p -> Npos (XO p)

  (** val coq_lor : positive -> positive -> positive **)

  let rec coq_lor p q =
    match p with
    | XI p0 ->
      (match q with
       | XI q0 -> XI (coq_lor p0 q0)
       | XO q0 -> XI (coq_lor p0 q0)
       | XH -> p)
    | XO p0 ->
      (match q with
       | XI q0 -> XI (coq_lor p0 q0)
       | XO q0 -> XO (coq_lor p0 q0)
       | XH -> XI p0)
    | XH -> (match q with
             | XO q0 -> XI q0
             | _ -> q)

  (** val coq_land : positive -> positive -> n **)

  let rec coq_land p q =
    match p with
    | XI p0 ->
      (match q with
       | XI q0 -> coq_Nsucc_double (coq_land p0 q0)
       | XO q0 -> coq_Ndouble (coq_land p0 q0)
       | XH -> Npos XH)
    | XO p0 ->
      (match q with
       | XI q0 -> coq_Ndouble (coq_land p0 q0)
       | XO q0 -> coq_Ndouble (coq_land p0 q0)
       | XH -> N0)
    | XH -> (match q with
             | XO _ -> N0
             | _ -> Npos XH)

  (** val ldiff : positive -> positive -> n **)

  let rec ldiff p q =
    match p with
    | XI p0 ->
      (match q with
       | XI q0 -> coq_Ndouble (ldiff p0 q0)
       | XO q0 -> coq_Nsucc_double (ldiff p0 q0)
       | XH -> Npos (XO p0))
    | XO p0 ->
      (match q with
       | XI q0 -> coq_Ndouble (ldiff p0 q0)
       | XO q0 -> coq_Ndouble (ldiff p0 q0)
       | XH -> Npos p)
    | XH -> (match q with
             | XO _ -> Npos XH
             | _ -> N0)

  (** val coq_lxor : positive -> positive -> n **)

  let rec coq_lxor p q =
    match p with
    | XI p0 ->
      (match q with
       | XI q0 -> coq_Ndouble (coq_lxor p0 q0)
       | XO q0 -> coq_Nsucc_double (coq_lxor p0 q0)
       | XH -> Npos (XO p0))
    | XO p0 ->
      (match q with
       | XI q0 -> coq_Nsucc_double (coq_lxor p0 q0)
       | XO q0 -> coq_Ndouble (coq_lxor p0 q0)
       | XH -> Npos (XI p0))
    | XH ->
      (match q with
       | XI q0 -> Npos (XO q0)
       | XO q0 -> Npos (XI q0)
       | XH -> N0)

  (** val testbit : positive -> n -> bool **)

  let rec testbit p n0 =
    match p with
    | XI p0 -> (match n0 with
                | N0 -> true
                | Npos n1 -> testbit p0 (pred_N n1))
    | XO p0 -> (match n0 with
                | N0 -> false
                | Npos n1 -> testbit p0 (pred_N n1))
    | XH -> (match n0 with
             | N0 -> true
             | Npos _ -> false)

  (** val iter_op : ('a1 -> 'a1 -> 'a1) -> positive -> 'a1 -> 'a1 **)

  let rec iter_op op p a =
    match p with
    | XI p0 -> op a (iter_op op p0 (op a a))
    | XO p0 -> iter_op op p0 (op a a)
    | XH -> a

  (** val to_nat : positive -> nat **)

  let to_nat x =
    iter_op Coq__1.add x (S O)

  (** val of_succ_nat : nat -> positive **)

  let rec of_succ_nat = function
  | O -> XH
  | S x -> succ (of_succ_nat x)
 end

module N =
 struct
  (** val succ_pos : n -> positive **)

  let succ_pos = function
  | N0 -> XH
  | Npos p -> Pos.succ p

  (** val coq_lor : n -> n -> n **)

  let coq_lor n0 m =
    match n0 with
    | N0 -> m
    | Npos p -> (match m with
                 | N0 -> n0
                 | Npos q -> Npos (Pos.coq_lor p q))

  (** val coq_land : n -> n -> n **)

  let coq_land n0 m =
    match n0 with
    | N0 -> N0
    | Npos p -> (match m with
                 | N0 -> N0
                 | Npos q -> Pos.coq_land p q)

  (** val ldiff : n -> n -> n **)

  let ldiff n0 m =
    match n0 with
    | N0 -> N0
    | Npos p -> (match m with
                 | N0 -> n0
                 | Npos q -> Pos.ldiff p q)

  (** val coq_lxor : n -> n -> n **)

  let coq_lxor n0 m =
    match n0 with
    | N0 -> m
    | Npos p -> (match m with
                 | N0 -> n0
                 | Npos q -> Pos.coq_lxor p q)

  (** val testbit : n -> n -> bool **)

  let testbit a n0 =
    match a with
    | N0 -> false
    | Npos p -> Pos.testbit p n0
 end

module Z =
 struct
  (** val double : z -> z **)

  let double = function
  | Z0 -> Z0
  | Zpos p -> Zpos (XO p)
  | Zneg p -> Zneg (XO p)

  (** val succ_double : z -> z **)

  let succ_double = function
  | Z0 -> Zpos XH
  | Zpos p -> Zpos (XI p)
  | Zneg p -> Zneg (Pos.pred_double p)

  (** val pred_double : z -> z **)

  let pred_double = function
  | Z0 -> Zneg XH
  | Zpos p -> Zpos (Pos.pred_double p)
  | Zneg p -> Zneg (XI p)

  (** val pos_sub : positive -> positive -> z **)

  let rec pos_sub x y =
    match x with
    | XI p ->
      (match y with
       | XI q -> double (pos_sub p q)
       | XO q -> succ_double (pos_sub p q)
       | XH -> Zpos (XO p))
    | XO p ->
      (match y with
       | XI q -> pred_double (pos_sub p q)
       | XO q -> double (pos_sub p q)
       | XH -> Zpos (Pos.pred_double p))
    | XH ->
      (match y with
       | XI q -> Zneg (XO q)
       | XO q -> Zneg (Pos.pred_double q)
       | XH -> Z0)

  (** val add : z -> z -> z **)

  let add x y =
    match x with
    | Z0 -> y
    | Zpos x' ->
      (match y with
       | Z0 -> x
       | Zpos y' -> Zpos (Pos.add x' y')
       | Zneg y' -> pos_sub x' y')
    | Zneg x' ->
      (match y with
       | Z0 -> x
       | Zpos y' -> pos_sub y' x'
       | Zneg y' -> Zneg (Pos.add x' y'))

  (** val opp : z -> z **)

  let opp = function
  | Z0 -> Z0
  | Zpos x0 -> Zneg x0
  | Zneg x0 -> Zpos x0

  (** val sub : z -> z -> z **)

  let sub m n0 =
    add m (opp n0)

  (** val mul : z -> z -> z **)

  let mul x y =
    match x with
    | Z0 -> Z0
    | Zpos x' ->
      (match y with
       | Z0 -> Z0
       | Zpos y' -> Zpos (Pos.mul x' y')
       | Zneg y' -> Zneg (Pos.mul x' y'))
    | Zneg x' ->
      (match y with
       | Z0 -> Z0
       | Zpos y' -> Zneg (Pos.mul x' y')
       | Zneg y' -> Zpos (Pos.mul x' y'))

  (** val compare : z -> z -> comparison **)

  let compare x y =
    match x with
    | Z0 -> (match y with
             | Z0 -> Eq
             | Zpos _ -> Lt
             | Zneg _ -> Gt)
    | Zpos x' -> (match y with
                  | Zpos y' -> Pos.compare x' y'
                  | _ -> Gt)
    | Zneg x' ->
      (match y with
       | Zneg y' -> compOpp (Pos.compare x' y')
       | _ -> Lt)

  (** val leb : z -> z -> bool **)

  let leb x y =
    match compare x y with
    | Gt -> false
    | _ -> true

  (** val ltb : z -> z -> bool **)

  let ltb x y =
    match compare x y with
    | Lt -> true
    | _ -> false

  (** val eqb : z -> z -> bool **)

  let eqb x y =
    match x with
    | Z0 -> (match y with
             | Z0 -> true
             | _ -> false)
    | Zpos p -> (match y with
                 | Zpos q -> Pos.eqb p q
                 | _ -> false)
    | Zneg p -> (match y with
                 | Zneg q -> Pos.eqb p q
                 | _ -> false)

  (** val max : z -> z -> z **)

  let max n0 m =
    match compare n0 m with
    | Lt -> m
    | _ -> n0

  (** val min : z -> z -> z **)

  let min n0 m =
    match compare n0 m with
    | Gt -> m
    | _ -> n0

  (** val to_nat : z -> nat **)

  let to_nat = function
  | Zpos p -> Pos.to_nat p
  | _ -> O

  (** val of_nat : nat -> z **)

  let of_nat = function
  | O -> Z0
  | S n1 -> Zpos (Pos.of_succ_nat n1)

  (** val of_N : n -> z **)

  let of_N = function
  | N0 -> Z0
  | Npos p -> Zpos p

  (** val iter : z -> ('a1 -> 'a1) -> 'a1 -> 'a1 **)

  let iter n0 f x =
    match n0 with
    | Zpos p -> Pos.iter f x p
    | _ -> x

  (** val pos_div_eucl : positive -> z -> z * z **)

  let rec pos_div_eucl a b =
    match a with
    | XI a' ->
      let (q, r) = pos_div_eucl a' b in
      let r' = add (mul (Zpos (XO XH)) r) (Zpos XH) in
      if ltb r' b
      then ((mul (Zpos (XO XH)) q), r')
      else ((add (mul (Zpos (XO XH)) q) (Zpos XH)), (sub r' b))
    | XO a' ->
      let (q, r) = pos_div_eucl a' b in
      let r' = mul (Zpos (XO XH)) r in
      if ltb r' b
      then ((mul (Zpos (XO XH)) q), r')
      else ((add (mul (Zpos (XO XH)) q) (Zpos XH)), (sub r' b))
    | XH -> if leb (Zpos (XO XH)) b then (Z0, (Zpos XH)) else ((Zpos XH), Z0)

  (** val div_eucl : z -> z -> z * z **)

  let div_eucl a b =
    match a with
    | Z0 -> (Z0, Z0)
    | Zpos a' ->
      (match b with
       | Z0 -> (Z0, a)
       | Zpos _ -> pos_div_eucl a' b
       | Zneg b' ->
         let (q, r) = pos_div_eucl a' (Zpos b') in
         (match r with
          | Z0 -> ((opp q), Z0)
          | _ -> ((opp (add q (Zpos XH))), (add b r))))
    | Zneg a' ->
      (match b with
       | Z0 -> (Z0, a)
       | Zpos _ ->
         let (q, r) = pos_div_eucl a' b in
         (match r with
          | Z0 -> ((opp q), Z0)
          | _ -> ((opp (add q (Zpos XH))), (sub b r)))
       | Zneg b' -> let (q, r) = pos_div_eucl a' (Zpos b') in (q, (opp r)))

  (** val div : z -> z -> z **)

  let div a b =
    let (q, _) = div_eucl a b in q

  (** val modulo : z -> z -> z **)

  let modulo a b =
    let (_, r) = div_eucl a b in r

  (** val odd : z -> bool **)

  let odd = function
  | Z0 -> false
  | Zpos p -> (match p with
               | XO _ -> false
               | _ -> true)
  | Zneg p -> (match p with
               | XO _ -> false
               | _ -> true)

  (** val div2 : z -> z **)

  let div2 = function
  | Z0 -> Z0
  | Zpos p -> (match p with
               | XH -> Z0
               | _ -> Zpos (Pos.div2 p))
  | Zneg p -> Zneg (Pos.div2_up p)

  (** val testbit : z -> z -> bool **)

  let testbit a = function
  | Z0 -> odd a
  | Zpos p ->
    (match a with
     | Z0 -> false
     | Zpos a0 -> Pos.testbit a0 (Npos p)
     | Zneg a0 -> negb (N.testbit (Pos.pred_N a0) (Npos p)))
  | Zneg _ -> false

  (** val shiftl : z -> z -> z **)

  let shiftl a = function
  | Z0 -> a
  | Zpos p -> Pos.iter (mul (Zpos (XO XH))) a p
  | Zneg p -> Pos.iter div2 a p

  (** val shiftr : z -> z -> z **)

  let shiftr a n0 =
    shiftl a (opp n0)

  (** val coq_lor : z -> z -> z **)

  let coq_lor a b =
    match a with
    | Z0 -> b
    | Zpos a0 ->
      (match b with
       | Z0 -> a
       | Zpos b0 -> Zpos (Pos.coq_lor a0 b0)
       | Zneg b0 -> Zneg (N.succ_pos (N.ldiff (Pos.pred_N b0) (Npos a0))))
    | Zneg a0 ->
      (match b with
       | Z0 -> a
       | Zpos b0 -> Zneg (N.succ_pos (N.ldiff (Pos.pred_N a0) (Npos b0)))
       | Zneg b0 ->
         Zneg (N.succ_pos (N.coq_land (Pos.pred_N a0) (Pos.pred_N b0))))

  (** val coq_land : z -> z -> z **)

  let coq_land a b =
    match a with
    | Z0 -> Z0
    | Zpos a0 ->
      (match b with
       | Z0 -> Z0
       | Zpos b0 -> of_N (Pos.coq_land a0 b0)
       | Zneg b0 -> of_N (N.ldiff (Npos a0) (Pos.pred_N b0)))
    | Zneg a0 ->
      (match b with
       | Z0 -> Z0
       | Zpos b0 -> of_N (N.ldiff (Npos b0) (Pos.pred_N a0))
       | Zneg b0 ->
         Zneg (N.succ_pos (N.coq_lor (Pos.pred_N a0) (Pos.pred_N b0))))

  (** val coq_lxor : z -> z -> z **)

  let coq_lxor a b =
    match a with
    | Z0 -> b
    | Zpos a0 ->
      (match b with
       | Z0 -> a
       | Zpos b0 -> of_N (Pos.coq_lxor a0 b0)
       | Zneg b0 -> Zneg (N.succ_pos (N.coq_lxor (Npos a0) (Pos.pred_N b0))))
    | Zneg a0 ->
      (match b with
       | Z0 -> a
       | Zpos b0 -> Zneg (N.succ_pos (N.coq_lxor (Pos.pred_N a0) (Npos b0)))
       | Zneg b0 -> of_N (N.coq_lxor (Pos.pred_N a0) (Pos.pred_N b0)))
 end

(** val nth : nat -> 'a1 list -> 'a1 -> 'a1 **)

let rec nth n0 l default =
  match n0 with
  | O -> (match l with
          | [] -> default
          | x :: _ -> x)
  | S m -> (match l with
            | [] -> default
            | _ :: t -> nth m t default)

(** val nth_error : 'a1 list -> nat -> 'a1 option **)

let rec nth_error l = function
| O -> (match l with
        | [] -> None
        | x :: _ -> Some x)
| S n1 -> (match l with
           | [] -> None
           | _ :: l0 -> nth_error l0 n1)

(** val rev : 'a1 list -> 'a1 list **)

let rec rev = function
| [] -> []
| x :: l' -> app (rev l') (x :: [])

(** val rev_append : 'a1 list -> 'a1 list -> 'a1 list **)

let rec rev_append l l' =
  match l with
  | [] -> l'
  | a :: l0 -> rev_append l0 (a :: l')

(** val map : ('a1 -> 'a2) -> 'a1 list -> 'a2 list **)

let rec map f = function
| [] -> []
| a :: t -> (f a) :: (map f t)

(** val flat_map : ('a1 -> 'a2 list) -> 'a1 list -> 'a2 list **)

let rec flat_map f = function
| [] -> []
| x :: t -> app (f x) (flat_map f t)

(** val fold_left : ('a1 -> 'a2 -> 'a1) -> 'a2 list -> 'a1 -> 'a1 **)

let rec fold_left f l a0 =
  match l with
  | [] -> a0
  | b :: t -> fold_left f t (f a0 b)

(** val firstn : nat -> 'a1 list -> 'a1 list **)

let rec firstn n0 l =
  match n0 with
  | O -> []
  | S n1 -> (match l with
             | [] -> []
             | a :: l0 -> a :: (firstn n1 l0))

(** val skipn : nat -> 'a1 list -> 'a1 list **)

let rec skipn n0 l =
  match n0 with
  | O -> l
  | S n1 -> (match l with
             | [] -> []
             | _ :: l0 -> skipn n1 l0)

(** val repeat : 'a1 -> nat -> 'a1 list **)

let rec repeat x = function
| O -> []
| S k -> x :: (repeat x k)

type bytes = z list

type err =
| Incomplete
| UnexpectedTag
| InvalidTagFormat
| UnknownPdu
| InvalidPdu
| InvalidData
| InvalidKey
| UnsupportedTag
| TrailingData
| InvalidVersion
| OutOfBuffer
| NotImplemented
| NoSuchInstance
| SocketError
| WouldBlock
| ConnectionRefused
| UnknownSecurityModel
| AuthenticationFailed

type 'a res =
| Ok of 'a
| Err of err
| Panic

(** val bind : 'a1 res -> ('a1 -> 'a2 res) -> 'a2 res **)

let bind r f =
  match r with
  | Ok a -> f a
  | Err e -> Err e
  | Panic -> Panic

(** val len : bytes -> z **)

let len l =
  Z.of_nat (length l)

(** val idx : bytes -> nat -> z res **)

let idx l k =
  match nth_error l k with
  | Some b -> Ok b
  | None -> Panic

(** val takez : z -> bytes -> bytes **)

let rec takez n0 = function
| [] -> []
| x :: r -> if Z.leb n0 Z0 then [] else x :: (takez (Z.sub n0 (Zpos XH)) r)

(** val dropz : z -> bytes -> bytes **)

let rec dropz n0 l = match l with
| [] -> []
| _ :: r -> if Z.leb n0 Z0 then l else dropz (Z.sub n0 (Zpos XH)) r

(** val slice_to : bytes -> z -> bytes res **)

let slice_to l n0 =
  if (||) (Z.ltb n0 Z0) (Z.ltb (len l) n0) then Panic else Ok (takez n0 l)

(** val slice_from : bytes -> z -> bytes res **)

let slice_from l n0 =
  if (||) (Z.ltb n0 Z0) (Z.ltb (len l) n0) then Panic else Ok (dropz n0 l)

(** val wrap8 : z -> z **)

let wrap8 z0 =
  Z.modulo z0 (Zpos (XO (XO (XO (XO (XO (XO (XO (XO XH)))))))))

(** val wrap32 : z -> z **)

let wrap32 z0 =
  Z.modulo z0 (Zpos (XO (XO (XO (XO (XO (XO (XO (XO (XO (XO (XO (XO (XO (XO
    (XO (XO (XO (XO (XO (XO (XO (XO (XO (XO (XO (XO (XO (XO (XO (XO (XO (XO
    XH)))))))))))))))))))))))))))))))))

(** val wrap64 : z -> z **)

let wrap64 z0 =
  Z.modulo z0 (Zpos (XO (XO (XO (XO (XO (XO (XO (XO (XO (XO (XO (XO (XO (XO
    (XO (XO (XO (XO (XO (XO (XO (XO (XO (XO (XO (XO (XO (XO (XO (XO (XO (XO
    (XO (XO (XO (XO (XO (XO (XO (XO (XO (XO (XO (XO (XO (XO (XO (XO (XO (XO
    (XO (XO (XO (XO (XO (XO (XO (XO (XO (XO (XO (XO (XO (XO
    XH)))))))))))))))))))))))))))))))))))))))))))))))))))))))))))))))))

(** val swrap64 : z -> z **)

let swrap64 z0 =
  let m =
    Z.modulo z0 (Zpos (XO (XO (XO (XO (XO (XO (XO (XO (XO (XO (XO (XO (XO (XO
      (XO (XO (XO (XO (XO (XO (XO (XO (XO (XO (XO (XO (XO (XO (XO (XO (XO (XO
      (XO (XO (XO (XO (XO (XO (XO (XO (XO (XO (XO (XO (XO (XO (XO (XO (XO (XO
      (XO (XO (XO (XO (XO (XO (XO (XO (XO (XO (XO (XO (XO (XO
      XH)))))))))))))))))))))))))))))))))))))))))))))))))))))))))))))))))
  in
  if Z.ltb m (Zpos (XO (XO (XO (XO (XO (XO (XO (XO (XO (XO (XO (XO (XO (XO
       (XO (XO (XO (XO (XO (XO (XO (XO (XO (XO (XO (XO (XO (XO (XO (XO (XO
       (XO (XO (XO (XO (XO (XO (XO (XO (XO (XO (XO (XO (XO (XO (XO (XO (XO
       (XO (XO (XO (XO (XO (XO (XO (XO (XO (XO (XO (XO (XO (XO (XO
       XH))))))))))))))))))))))))))))))))))))))))))))))))))))))))))))))))
  then m
  else Z.sub m (Zpos (XO (XO (XO (XO (XO (XO (XO (XO (XO (XO (XO (XO (XO (XO
         (XO (XO (XO (XO (XO (XO (XO (XO (XO (XO (XO (XO (XO (XO (XO (XO (XO
         (XO (XO (XO (XO (XO (XO (XO (XO (XO (XO (XO (XO (XO (XO (XO (XO (XO
         (XO (XO (XO (XO (XO (XO (XO (XO (XO (XO (XO (XO (XO (XO (XO (XO
         XH)))))))))))))))))))))))))))))))))))))))))))))))))))))))))))))))))

(** val sat64 : z -> z **)

let sat64 z0 =
  Z.max (Zneg (XO (XO (XO (XO (XO (XO (XO (XO (XO (XO (XO (XO (XO (XO (XO (XO
    (XO (XO (XO (XO (XO (XO (XO (XO (XO (XO (XO (XO (XO (XO (XO (XO (XO (XO
    (XO (XO (XO (XO (XO (XO (XO (XO (XO (XO (XO (XO (XO (XO (XO (XO (XO (XO
    (XO (XO (XO (XO (XO (XO (XO (XO (XO (XO (XO
    XH))))))))))))))))))))))))))))))))))))))))))))))))))))))))))))))))
    (Z.min (Zpos (XI (XI (XI (XI (XI (XI (XI (XI (XI (XI (XI (XI (XI (XI (XI
      (XI (XI (XI (XI (XI (XI (XI (XI (XI (XI (XI (XI (XI (XI (XI (XI (XI (XI
      (XI (XI (XI (XI (XI (XI (XI (XI (XI (XI (XI (XI (XI (XI (XI (XI (XI (XI
      (XI (XI (XI (XI (XI (XI (XI (XI (XI (XI (XI
      XH))))))))))))))))))))))))))))))))))))))))))))))))))))))))))))))) z0)

(** val testbit0 : z -> z -> bool **)

let testbit0 b mask =
  negb (Z.eqb (Z.coq_land b mask) Z0)

(** val all_eqb : bytes -> bytes -> bool **)

let rec all_eqb a b =
  match a with
  | [] -> (match b with
           | [] -> true
           | _ :: _ -> false)
  | x :: a' ->
    (match b with
     | [] -> false
     | y :: b' -> (&&) (Z.eqb x y) (all_eqb a' b'))

(** val tAG_BOOL : z **)

let tAG_BOOL =
  Zpos XH

(** val tAG_INT : z **)

let tAG_INT =
  Zpos (XO XH)

(** val tAG_OCTET_STRING : z **)

let tAG_OCTET_STRING =
  Zpos (XO (XO XH))

(** val tAG_NULL : z **)

let tAG_NULL =
  Zpos (XI (XO XH))

(** val tAG_OBJECT_ID : z **)

let tAG_OBJECT_ID =
  Zpos (XO (XI XH))

(** val tAG_OBJECT_DESCRIPTOR : z **)

let tAG_OBJECT_DESCRIPTOR =
  Zpos (XI (XI XH))

(** val tAG_REAL : z **)

let tAG_REAL =
  Zpos (XI (XO (XO XH)))

(** val tAG_SEQUENCE : z **)

let tAG_SEQUENCE =
  Zpos (XO (XO (XO (XO XH))))

(** val tAG_RELATIVE_OID : z **)

let tAG_RELATIVE_OID =
  Zpos (XI (XO (XI XH)))

(** val tAG_APP_IPADDRESS : z **)

let tAG_APP_IPADDRESS =
  Z0

(** val tAG_APP_COUNTER32 : z **)

let tAG_APP_COUNTER32 =
  Zpos XH

(** val tAG_APP_GAUGE32 : z **)

let tAG_APP_GAUGE32 =
  Zpos (XO XH)

(** val tAG_APP_TIMETICKS : z **)

let tAG_APP_TIMETICKS =
  Zpos (XI XH)

(** val tAG_APP_OPAQUE : z **)

let tAG_APP_OPAQUE =
  Zpos (XO (XO XH))

(** val tAG_APP_COUNTER64 : z **)

let tAG_APP_COUNTER64 =
  Zpos (XO (XI XH))

(** val tAG_APP_UINTEGER32 : z **)

let tAG_APP_UINTEGER32 =
  Zpos (XI (XI XH))

(** val tAG_CTX_NO_SUCH_OBJECT : z **)

let tAG_CTX_NO_SUCH_OBJECT =
  Z0

(** val tAG_CTX_NO_SUCH_INSTANCE : z **)

let tAG_CTX_NO_SUCH_INSTANCE =
  Zpos XH

(** val tAG_CTX_END_OF_MIB_VIEW : z **)

let tAG_CTX_END_OF_MIB_VIEW =
  Zpos (XO XH)

(** val bUF_MAX_SIZE : z **)

let bUF_MAX_SIZE =
  Zpos (XO (XO (XO (XO (XI (XI (XI (XI (XI (XI (XI XH)))))))))))

(** val sNMP_V3 : z **)

let sNMP_V3 =
  Zpos (XI XH)

(** val pDU_GET_REQUEST : z **)

let pDU_GET_REQUEST =
  Z0

(** val pDU_GETNEXT_REQUEST : z **)

let pDU_GETNEXT_REQUEST =
  Zpos XH

(** val pDU_GET_RESPONSE : z **)

let pDU_GET_RESPONSE =
  Zpos (XO XH)

(** val pDU_GET_BULK_REQUEST : z **)

let pDU_GET_BULK_REQUEST =
  Zpos (XI (XO XH))

(** val pDU_REPORT : z **)

let pDU_REPORT =
  Zpos (XO (XO (XO XH)))

(** val pDU_TAG_GET : z **)

let pDU_TAG_GET =
  Zpos (XO (XO (XO (XO (XO (XI (XO XH)))))))

(** val pDU_TAG_GETNEXT : z **)

let pDU_TAG_GETNEXT =
  Zpos (XI (XO (XO (XO (XO (XI (XO XH)))))))

(** val pDU_TAG_GETBULK : z **)

let pDU_TAG_GETBULK =
  Zpos (XI (XO (XI (XO (XO (XI (XO XH)))))))

(** val v3_MAX_SIZE : z **)

let v3_MAX_SIZE =
  Zpos (XO (XO (XO (XO (XO (XO (XO (XO (XO (XO (XO XH)))))))))))

(** val uSM_MODEL : z **)

let uSM_MODEL =
  Zpos (XI XH)

(** val fLAG_REPORT : z **)

let fLAG_REPORT =
  Zpos (XO (XO XH))

(** val fLAG_PRIV : z **)

let fLAG_PRIV =
  Zpos (XO XH)

(** val fLAG_AUTH : z **)

let fLAG_AUTH =
  Zpos XH

(** val mAX_REQUEST_ID : z **)

let mAX_REQUEST_ID =
  Zpos (XI (XI (XI (XI (XI (XI (XI (XI (XI (XI (XI (XI (XI (XI (XI (XI (XI
    (XI (XI (XI (XI (XI (XI (XI (XI (XI (XI (XI (XI (XI
    XH))))))))))))))))))))))))))))))

(** val nO_AUTH : z **)

let nO_AUTH =
  Z0

(** val mD5_AUTH : z **)

let mD5_AUTH =
  Zpos XH

(** val sHA1_AUTH : z **)

let sHA1_AUTH =
  Zpos (XO XH)

(** val kT_ALG_MASK : z **)

let kT_ALG_MASK =
  Zpos (XI (XI (XI (XI (XI XH)))))

(** val kT_TYPE_MASK : z **)

let kT_TYPE_MASK =
  Zpos (XO (XO (XO (XO (XO (XO (XI XH)))))))

(** val kT_PASSWORD : z **)

let kT_PASSWORD =
  Z0

(** val kT_MASTER : z **)

let kT_MASTER =
  Zpos (XO (XO (XO (XO (XO (XO XH))))))

(** val kT_LOCALIZED : z **)

let kT_LOCALIZED =
  Zpos (XO (XO (XO (XO (XO (XO (XO XH)))))))

(** val mD5_KEY_SIZE : z **)

let mD5_KEY_SIZE =
  Zpos (XO (XO (XO (XO XH))))

(** val mD5_SIGN_SIZE : z **)

let mD5_SIGN_SIZE =
  Zpos (XO (XO (XI XH)))

(** val sHA1_KEY_SIZE : z **)

let sHA1_KEY_SIZE =
  Zpos (XO (XO (XI (XO XH))))

(** val sHA1_SIGN_SIZE : z **)

let sHA1_SIGN_SIZE =
  Zpos (XO (XO (XI XH)))

(** val pADDED_LENGTH : z **)

let pADDED_LENGTH =
  Zpos (XO (XO (XO (XO (XO (XO XH))))))

(** val iPAD_VALUE : z **)

let iPAD_VALUE =
  Zpos (XO (XI (XI (XO (XI XH)))))

(** val oPAD_VALUE : z **)

let oPAD_VALUE =
  Zpos (XO (XO (XI (XI (XI (XO XH))))))

(** val mEGABYTE : z **)

let mEGABYTE =
  Zpos (XO (XO (XO (XO (XO (XO (XO (XO (XO (XO (XO (XO (XO (XO (XO (XO (XO
    (XO (XO (XO XH))))))))))))))))))))

(** val nO_PRIV : z **)

let nO_PRIV =
  Z0

(** val pRIV_DES : z **)

let pRIV_DES =
  Zpos XH

(** val pRIV_AES128 : z **)

let pRIV_AES128 =
  Zpos (XO XH)

(** val pRIV_KT_ALG_MASK : z **)

let pRIV_KT_ALG_MASK =
  Zpos (XI (XI (XI (XI (XI XH)))))

(** val dES_KEY_LENGTH : z **)

let dES_KEY_LENGTH =
  Zpos (XO (XO (XO (XO XH))))

(** val dES_ENC_KEY_LENGTH : z **)

let dES_ENC_KEY_LENGTH =
  Zpos (XO (XO (XO XH)))

(** val dES_BLOCK_SIZE : z **)

let dES_BLOCK_SIZE =
  Zpos (XO (XO (XO XH)))

(** val aES_KEY_LENGTH : z **)

let aES_KEY_LENGTH =
  Zpos (XO (XO (XO (XO XH))))

(** val aES_BLOCK_SIZE : z **)

let aES_BLOCK_SIZE =
  Zpos (XO (XO (XO (XO XH))))

type hdr = { h_class : z; h_constructed : bool; h_tag : z; h_length : z }

(** val tag_loop : z -> bytes -> (z * bytes) res **)

let rec tag_loop n0 = function
| [] -> Err Incomplete
| t :: r ->
  let n' =
    wrap8
      (Z.coq_lor (Z.shiftl n0 (Zpos (XI (XI XH))))
        (Z.coq_land t (Zpos (XI (XI (XI (XI (XI (XI XH)))))))))
  in
  if Z.eqb (Z.coq_land t (Zpos (XO (XO (XO (XO (XO (XO (XO XH))))))))) Z0
  then Ok (n', r)
  else tag_loop n' r

(** val len_loop : nat -> z -> bytes -> (z * bytes) res **)

let rec len_loop k ln l =
  match k with
  | O -> Ok (ln, l)
  | S k' ->
    (match l with
     | [] -> Err Incomplete
     | b :: r ->
       len_loop k' (wrap64 (Z.add (Z.shiftl ln (Zpos (XO (XO (XO XH))))) b)) r)

(** val parse_header : bytes -> (bytes * hdr) res **)

let parse_header = function
| [] -> Err Incomplete
| id :: r1 ->
  (match r1 with
   | [] -> Err Incomplete
   | _ :: _ ->
     let class0 = Z.coq_land (Z.shiftr id (Zpos (XO (XI XH)))) (Zpos (XI XH))
     in
     let constructed =
       Z.eqb (Z.coq_land (Z.shiftr id (Zpos (XI (XO XH)))) (Zpos XH)) (Zpos
         XH)
     in
     bind
       (if Z.eqb (Z.coq_land id (Zpos (XI (XI (XI (XI XH)))))) (Zpos (XI (XI
             (XI (XI XH)))))
        then tag_loop Z0 r1
        else Ok ((Z.coq_land id (Zpos (XI (XI (XI (XI XH)))))), r1))
       (fun ab ->
       let (tag, r2) = ab in
       (match r2 with
        | [] -> Err Incomplete
        | n0 :: r3 ->
          bind
            (if Z.eqb
                  (Z.coq_land n0 (Zpos (XO (XO (XO (XO (XO (XO (XO XH)))))))))
                  Z0
             then Ok (n0, r3)
             else len_loop
                    (Z.to_nat
                      (Z.coq_land n0 (Zpos (XI (XI (XI (XI (XI (XI XH)))))))))
                    Z0 r3) (fun ab0 ->
            let (length0, r4) = ab0 in
            if Z.ltb (len r4) length0
            then Err Incomplete
            else Ok (r4, { h_class = class0; h_constructed = constructed;
                   h_tag = tag; h_length = length0 })))))

(** val from_ber :
    z -> bool -> bool -> (bytes -> hdr -> 'a1 res) -> bytes -> (bytes * 'a1)
    res **)

let from_ber tag allow_prim allow_constr decode i =
  if Z.ltb (len i) (Zpos (XO XH))
  then Err Incomplete
  else bind (parse_header i) (fun ab ->
         let (tail, h) = ab in
         if (||)
              ((||) (negb (Z.eqb h.h_tag tag))
                ((&&) h.h_constructed (negb allow_constr)))
              ((&&) (negb h.h_constructed) (negb allow_prim))
         then Err UnexpectedTag
         else bind (slice_from tail h.h_length) (fun rest ->
                bind (decode tail h) (fun v -> Ok (rest, v))))

(** val decode_bool : bytes -> hdr -> bool res **)

let decode_bool i h =
  if negb (Z.eqb h.h_length (Zpos XH))
  then Err InvalidData
  else bind (idx i O) (fun b -> Ok (negb (Z.eqb b Z0)))

(** val decode_null : bytes -> hdr -> unit res **)

let decode_null _ h =
  if negb (Z.eqb h.h_length Z0) then Err InvalidTagFormat else Ok ()

(** val fold_be : (z -> z) -> bytes -> z **)

let fold_be wrap = function
| [] -> Z0
| x :: r ->
  fold_left (fun acc b ->
    wrap
      (Z.add (Z.mul acc (Zpos (XO (XO (XO (XO (XO (XO (XO (XO XH)))))))))) b))
    r x

(** val decode_int : bytes -> hdr -> z res **)

let decode_int i h =
  if Z.eqb h.h_length Z0
  then Ok Z0
  else let v = fold_be swrap64 (takez h.h_length i) in
       bind (idx i O) (fun b0 ->
         if (||)
              (Z.eqb
                (Z.coq_land b0 (Zpos (XO (XO (XO (XO (XO (XO (XO XH)))))))))
                Z0) (Z.leb (Zpos (XO (XO (XO XH)))) h.h_length)
         then Ok v
         else Ok
                (Z.sub v
                  (Z.shiftl (Zpos XH)
                    (Z.mul (Zpos (XO (XO (XO XH)))) h.h_length))))

(** val decode_u32 : bytes -> hdr -> z res **)

let decode_u32 i h =
  Ok (fold_be wrap32 (takez h.h_length i))

(** val decode_u64 : bytes -> hdr -> z res **)

let decode_u64 i h =
  Ok (fold_be wrap64 (takez h.h_length i))

(** val decode_slice : bytes -> hdr -> bytes res **)

let decode_slice i h =
  slice_to i h.h_length

(** val decode_ip : bytes -> hdr -> (((z * z) * z) * z) res **)

let decode_ip i h =
  if negb (Z.eqb h.h_length (Zpos (XO (XO XH))))
  then Err InvalidTagFormat
  else bind (idx i O) (fun a ->
         bind (idx i (S O)) (fun b ->
           bind (idx i (S (S O))) (fun c ->
             bind (idx i (S (S (S O)))) (fun d -> Ok (((a, b), c), d)))))

type real =
| RZero
| RBin of bool * z * z
| RInt of z
| RDec of bytes
| RPlusInf
| RMinusInf
| RNaN
| RMinusZero

(** val is_digit : z -> bool **)

let is_digit b =
  (&&) (Z.leb (Zpos (XO (XO (XO (XO (XI XH)))))) b)
    (Z.leb b (Zpos (XI (XO (XO (XI (XI XH)))))))

(** val all_digits : bytes -> bool **)

let rec all_digits = function
| [] -> true
| x :: r -> (&&) (is_digit x) (all_digits r)

(** val digits_value : bytes -> z **)

let digits_value l =
  fold_left (fun acc b ->
    Z.add (Z.mul acc (Zpos (XO (XI (XO XH)))))
      (Z.sub b (Zpos (XO (XO (XO (XO (XI XH)))))))) l Z0

(** val parse_i32 : bytes -> z option **)

let parse_i32 l = match l with
| [] ->
  let neg = false in
  (match l with
   | [] -> None
   | _ :: _ ->
     if all_digits l
     then let v = digits_value l in
          let v0 = if neg then Z.opp v else v in
          if (&&)
               (Z.leb (Zneg (XO (XO (XO (XO (XO (XO (XO (XO (XO (XO (XO (XO
                 (XO (XO (XO (XO (XO (XO (XO (XO (XO (XO (XO (XO (XO (XO (XO
                 (XO (XO (XO (XO XH)))))))))))))))))))))))))))))))) v0)
               (Z.leb v0 (Zpos (XI (XI (XI (XI (XI (XI (XI (XI (XI (XI (XI
                 (XI (XI (XI (XI (XI (XI (XI (XI (XI (XI (XI (XI (XI (XI (XI
                 (XI (XI (XI (XI XH))))))))))))))))))))))))))))))))
          then Some v0
          else None
     else None)
| z0 :: r ->
  (match z0 with
   | Zpos p ->
     (match p with
      | XI p0 ->
        (match p0 with
         | XI p1 ->
           (match p1 with
            | XO p2 ->
              (match p2 with
               | XI p3 ->
                 (match p3 with
                  | XO p4 ->
                    (match p4 with
                     | XH ->
                       let neg = false in
                       (match r with
                        | [] -> None
                        | _ :: _ ->
                          if all_digits r
                          then let v = digits_value r in
                               let v0 = if neg then Z.opp v else v in
                               if (&&)
                                    (Z.leb (Zneg (XO (XO (XO (XO (XO (XO (XO
                                      (XO (XO (XO (XO (XO (XO (XO (XO (XO (XO
                                      (XO (XO (XO (XO (XO (XO (XO (XO (XO (XO
                                      (XO (XO (XO (XO
                                      XH)))))))))))))))))))))))))))))))) v0)
                                    (Z.leb v0 (Zpos (XI (XI (XI (XI (XI (XI
                                      (XI (XI (XI (XI (XI (XI (XI (XI (XI (XI
                                      (XI (XI (XI (XI (XI (XI (XI (XI (XI (XI
                                      (XI (XI (XI (XI
                                      XH))))))))))))))))))))))))))))))))
                               then Some v0
                               else None
                          else None)
                     | _ ->
                       let neg = false in
                       (match l with
                        | [] -> None
                        | _ :: _ ->
                          if all_digits l
                          then let v = digits_value l in
                               let v0 = if neg then Z.opp v else v in
                               if (&&)
                                    (Z.leb (Zneg (XO (XO (XO (XO (XO (XO (XO
                                      (XO (XO (XO (XO (XO (XO (XO (XO (XO (XO
                                      (XO (XO (XO (XO (XO (XO (XO (XO (XO (XO
                                      (XO (XO (XO (XO
                                      XH)))))))))))))))))))))))))))))))) v0)
                                    (Z.leb v0 (Zpos (XI (XI (XI (XI (XI (XI
                                      (XI (XI (XI (XI (XI (XI (XI (XI (XI (XI
                                      (XI (XI (XI (XI (XI (XI (XI (XI (XI (XI
                                      (XI (XI (XI (XI
                                      XH))))))))))))))))))))))))))))))))
                               then Some v0
                               else None
                          else None))
                  | _ ->
                    let neg = false in
                    (match l with
                     | [] -> None
                     | _ :: _ ->
                       if all_digits l
                       then let v = digits_value l in
                            let v0 = if neg then Z.opp v else v in
                            if (&&)
                                 (Z.leb (Zneg (XO (XO (XO (XO (XO (XO (XO (XO
                                   (XO (XO (XO (XO (XO (XO (XO (XO (XO (XO
                                   (XO (XO (XO (XO (XO (XO (XO (XO (XO (XO
                                   (XO (XO (XO
                                   XH)))))))))))))))))))))))))))))))) v0)
                                 (Z.leb v0 (Zpos (XI (XI (XI (XI (XI (XI (XI
                                   (XI (XI (XI (XI (XI (XI (XI (XI (XI (XI
                                   (XI (XI (XI (XI (XI (XI (XI (XI (XI (XI
                                   (XI (XI (XI
                                   XH))))))))))))))))))))))))))))))))
                            then Some v0
                            else None
                       else None))
               | _ ->
                 let neg = false in
                 (match l with
                  | [] -> None
                  | _ :: _ ->
                    if all_digits l
                    then let v = digits_value l in
                         let v0 = if neg then Z.opp v else v in
                         if (&&)
                              (Z.leb (Zneg (XO (XO (XO (XO (XO (XO (XO (XO
                                (XO (XO (XO (XO (XO (XO (XO (XO (XO (XO (XO
                                (XO (XO (XO (XO (XO (XO (XO (XO (XO (XO (XO
                                (XO XH)))))))))))))))))))))))))))))))) v0)
                              (Z.leb v0 (Zpos (XI (XI (XI (XI (XI (XI (XI (XI
                                (XI (XI (XI (XI (XI (XI (XI (XI (XI (XI (XI
                                (XI (XI (XI (XI (XI (XI (XI (XI (XI (XI (XI
                                XH))))))))))))))))))))))))))))))))
                         then Some v0
                         else None
                    else None))
            | _ ->
              let neg = false in
              (match l with
               | [] -> None
               | _ :: _ ->
                 if all_digits l
                 then let v = digits_value l in
                      let v0 = if neg then Z.opp v else v in
                      if (&&)
                           (Z.leb (Zneg (XO (XO (XO (XO (XO (XO (XO (XO (XO
                             (XO (XO (XO (XO (XO (XO (XO (XO (XO (XO (XO (XO
                             (XO (XO (XO (XO (XO (XO (XO (XO (XO (XO
                             XH)))))))))))))))))))))))))))))))) v0)
                           (Z.leb v0 (Zpos (XI (XI (XI (XI (XI (XI (XI (XI
                             (XI (XI (XI (XI (XI (XI (XI (XI (XI (XI (XI (XI
                             (XI (XI (XI (XI (XI (XI (XI (XI (XI (XI
                             XH))))))))))))))))))))))))))))))))
                      then Some v0
                      else None
                 else None))
         | XO p1 ->
           (match p1 with
            | XI p2 ->
              (match p2 with
               | XI p3 ->
                 (match p3 with
                  | XO p4 ->
                    (match p4 with
                     | XH ->
                       let neg = true in
                       (match r with
                        | [] -> None
                        | _ :: _ ->
                          if all_digits r
                          then let v = digits_value r in
                               let v0 = if neg then Z.opp v else v in
                               if (&&)
                                    (Z.leb (Zneg (XO (XO (XO (XO (XO (XO (XO
                                      (XO (XO (XO (XO (XO (XO (XO (XO (XO (XO
                                      (XO (XO (XO (XO (XO (XO (XO (XO (XO (XO
                                      (XO (XO (XO (XO
                                      XH)))))))))))))))))))))))))))))))) v0)
                                    (Z.leb v0 (Zpos (XI (XI (XI (XI (XI (XI
                                      (XI (XI (XI (XI (XI (XI (XI (XI (XI (XI
                                      (XI (XI (XI (XI (XI (XI (XI (XI (XI (XI
                                      (XI (XI (XI (XI
                                      XH))))))))))))))))))))))))))))))))
                               then Some v0
                               else None
                          else None)
                     | _ ->
                       let neg = false in
                       (match l with
                        | [] -> None
                        | _ :: _ ->
                          if all_digits l
                          then let v = digits_value l in
                               let v0 = if neg then Z.opp v else v in
                               if (&&)
                                    (Z.leb (Zneg (XO (XO (XO (XO (XO (XO (XO
                                      (XO (XO (XO (XO (XO (XO (XO (XO (XO (XO
                                      (XO (XO (XO (XO (XO (XO (XO (XO (XO (XO
                                      (XO (XO (XO (XO
                                      XH)))))))))))))))))))))))))))))))) v0)
                                    (Z.leb v0 (Zpos (XI (XI (XI (XI (XI (XI
                                      (XI (XI (XI (XI (XI (XI (XI (XI (XI (XI
                                      (XI (XI (XI (XI (XI (XI (XI (XI (XI (XI
                                      (XI (XI (XI (XI
                                      XH))))))))))))))))))))))))))))))))
                               then Some v0
                               else None
                          else None))
                  | _ ->
                    let neg = false in
                    (match l with
                     | [] -> None
                     | _ :: _ ->
                       if all_digits l
                       then let v = digits_value l in
                            let v0 = if neg then Z.opp v else v in
                            if (&&)
                                 (Z.leb (Zneg (XO (XO (XO (XO (XO (XO (XO (XO
                                   (XO (XO (XO (XO (XO (XO (XO (XO (XO (XO
                                   (XO (XO (XO (XO (XO (XO (XO (XO (XO (XO
                                   (XO (XO (XO
                                   XH)))))))))))))))))))))))))))))))) v0)
                                 (Z.leb v0 (Zpos (XI (XI (XI (XI (XI (XI (XI
                                   (XI (XI (XI (XI (XI (XI (XI (XI (XI (XI
                                   (XI (XI (XI (XI (XI (XI (XI (XI (XI (XI
                                   (XI (XI (XI
                                   XH))))))))))))))))))))))))))))))))
                            then Some v0
                            else None
                       else None))
               | _ ->
                 let neg = false in
                 (match l with
                  | [] -> None
                  | _ :: _ ->
                    if all_digits l
                    then let v = digits_value l in
                         let v0 = if neg then Z.opp v else v in
                         if (&&)
                              (Z.leb (Zneg (XO (XO (XO (XO (XO (XO (XO (XO
                                (XO (XO (XO (XO (XO (XO (XO (XO (XO (XO (XO
                                (XO (XO (XO (XO (XO (XO (XO (XO (XO (XO (XO
                                (XO XH)))))))))))))))))))))))))))))))) v0)
                              (Z.leb v0 (Zpos (XI (XI (XI (XI (XI (XI (XI (XI
                                (XI (XI (XI (XI (XI (XI (XI (XI (XI (XI (XI
                                (XI (XI (XI (XI (XI (XI (XI (XI (XI (XI (XI
                                XH))))))))))))))))))))))))))))))))
                         then Some v0
                         else None
                    else None))
            | _ ->
              let neg = false in
              (match l with
               | [] -> None
               | _ :: _ ->
                 if all_digits l
                 then let v = digits_value l in
                      let v0 = if neg then Z.opp v else v in
                      if (&&)
                           (Z.leb (Zneg (XO (XO (XO (XO (XO (XO (XO (XO (XO
                             (XO (XO (XO (XO (XO (XO (XO (XO (XO (XO (XO (XO
                             (XO (XO (XO (XO (XO (XO (XO (XO (XO (XO
                             XH)))))))))))))))))))))))))))))))) v0)
                           (Z.leb v0 (Zpos (XI (XI (XI (XI (XI (XI (XI (XI
                             (XI (XI (XI (XI (XI (XI (XI (XI (XI (XI (XI (XI
                             (XI (XI (XI (XI (XI (XI (XI (XI (XI (XI
                             XH))))))))))))))))))))))))))))))))
                      then Some v0
                      else None
                 else None))
         | XH ->
           let neg = false in
           (match l with
            | [] -> None
            | _ :: _ ->
              if all_digits l
              then let v = digits_value l in
                   let v0 = if neg then Z.opp v else v in
                   if (&&)
                        (Z.leb (Zneg (XO (XO (XO (XO (XO (XO (XO (XO (XO (XO
                          (XO (XO (XO (XO (XO (XO (XO (XO (XO (XO (XO (XO (XO
                          (XO (XO (XO (XO (XO (XO (XO (XO
                          XH)))))))))))))))))))))))))))))))) v0)
                        (Z.leb v0 (Zpos (XI (XI (XI (XI (XI (XI (XI (XI (XI
                          (XI (XI (XI (XI (XI (XI (XI (XI (XI (XI (XI (XI (XI
                          (XI (XI (XI (XI (XI (XI (XI (XI
                          XH))))))))))))))))))))))))))))))))
                   then Some v0
                   else None
              else None))
      | _ ->
        let neg = false in
        (match l with
         | [] -> None
         | _ :: _ ->
           if all_digits l
           then let v = digits_value l in
                let v0 = if neg then Z.opp v else v in
                if (&&)
                     (Z.leb (Zneg (XO (XO (XO (XO (XO (XO (XO (XO (XO (XO (XO
                       (XO (XO (XO (XO (XO (XO (XO (XO (XO (XO (XO (XO (XO
                       (XO (XO (XO (XO (XO (XO (XO
                       XH)))))))))))))))))))))))))))))))) v0)
                     (Z.leb v0 (Zpos (XI (XI (XI (XI (XI (XI (XI (XI (XI (XI
                       (XI (XI (XI (XI (XI (XI (XI (XI (XI (XI (XI (XI (XI
                       (XI (XI (XI (XI (XI (XI (XI
                       XH))))))))))))))))))))))))))))))))
                then Some v0
                else None
           else None))
   | _ ->
     let neg = false in
     (match l with
      | [] -> None
      | _ :: _ ->
        if all_digits l
        then let v = digits_value l in
             let v0 = if neg then Z.opp v else v in
             if (&&)
                  (Z.leb (Zneg (XO (XO (XO (XO (XO (XO (XO (XO (XO (XO (XO
                    (XO (XO (XO (XO (XO (XO (XO (XO (XO (XO (XO (XO (XO (XO
                    (XO (XO (XO (XO (XO (XO
                    XH)))))))))))))))))))))))))))))))) v0)
                  (Z.leb v0 (Zpos (XI (XI (XI (XI (XI (XI (XI (XI (XI (XI (XI
                    (XI (XI (XI (XI (XI (XI (XI (XI (XI (XI (XI (XI (XI (XI
                    (XI (XI (XI (XI (XI XH))))))))))))))))))))))))))))))))
             then Some v0
             else None
        else None))

(** val span_digits : bytes -> bytes * bytes **)

let rec span_digits l = match l with
| [] -> ([], [])
| x :: r ->
  if is_digit x then let (d, t) = span_digits r in ((x :: d), t) else ([], l)

(** val lower : z -> z **)

let lower b =
  if (&&) (Z.leb (Zpos (XI (XO (XO (XO (XO (XO XH))))))) b)
       (Z.leb b (Zpos (XO (XI (XO (XI (XI (XO XH))))))))
  then Z.add b (Zpos (XO (XO (XO (XO (XO XH))))))
  else b

(** val is_special_word : bytes -> bool **)

let is_special_word l =
  let w = map lower l in
  (||)
    ((||)
      (all_eqb w ((Zpos (XI (XO (XO (XI (XO (XI XH))))))) :: ((Zpos (XO (XI
        (XI (XI (XO (XI XH))))))) :: ((Zpos (XO (XI (XI (XO (XO (XI
        XH))))))) :: []))))
      (all_eqb w ((Zpos (XI (XO (XO (XI (XO (XI XH))))))) :: ((Zpos (XO (XI
        (XI (XI (XO (XI XH))))))) :: ((Zpos (XO (XI (XI (XO (XO (XI
        XH))))))) :: ((Zpos (XI (XO (XO (XI (XO (XI XH))))))) :: ((Zpos (XO
        (XI (XI (XI (XO (XI XH))))))) :: ((Zpos (XI (XO (XO (XI (XO (XI
        XH))))))) :: ((Zpos (XO (XO (XI (XO (XI (XI XH))))))) :: ((Zpos (XI
        (XO (XO (XI (XI (XI XH))))))) :: []))))))))))
    (all_eqb w ((Zpos (XO (XI (XI (XI (XO (XI XH))))))) :: ((Zpos (XI (XO (XO
      (XO (XO (XI XH))))))) :: ((Zpos (XO (XI (XI (XI (XO (XI
      XH))))))) :: []))))

(** val valid_exp : bytes -> bool **)

let valid_exp = function
| [] -> true
| e :: r ->
  if (||) (Z.eqb e (Zpos (XI (XO (XI (XO (XO (XI XH))))))))
       (Z.eqb e (Zpos (XI (XO (XI (XO (XO (XO XH))))))))
  then let ds =
         match r with
         | [] -> r
         | z0 :: t ->
           (match z0 with
            | Zpos p ->
              (match p with
               | XI p0 ->
                 (match p0 with
                  | XI p1 ->
                    (match p1 with
                     | XO p2 ->
                       (match p2 with
                        | XI p3 ->
                          (match p3 with
                           | XO p4 -> (match p4 with
                                       | XH -> t
                                       | _ -> r)
                           | _ -> r)
                        | _ -> r)
                     | _ -> r)
                  | XO p1 ->
                    (match p1 with
                     | XI p2 ->
                       (match p2 with
                        | XI p3 ->
                          (match p3 with
                           | XO p4 -> (match p4 with
                                       | XH -> t
                                       | _ -> r)
                           | _ -> r)
                        | _ -> r)
                     | _ -> r)
                  | XH -> r)
               | _ -> r)
            | _ -> r)
       in
       (match ds with
        | [] -> false
        | _ :: _ -> all_digits ds)
  else false

(** val is_rust_float : bytes -> bool **)

let is_rust_float l =
  let body =
    match l with
    | [] -> l
    | z0 :: r ->
      (match z0 with
       | Zpos p ->
         (match p with
          | XI p0 ->
            (match p0 with
             | XI p1 ->
               (match p1 with
                | XO p2 ->
                  (match p2 with
                   | XI p3 ->
                     (match p3 with
                      | XO p4 -> (match p4 with
                                  | XH -> r
                                  | _ -> l)
                      | _ -> l)
                   | _ -> l)
                | _ -> l)
             | XO p1 ->
               (match p1 with
                | XI p2 ->
                  (match p2 with
                   | XI p3 ->
                     (match p3 with
                      | XO p4 -> (match p4 with
                                  | XH -> r
                                  | _ -> l)
                      | _ -> l)
                   | _ -> l)
                | _ -> l)
             | XH -> l)
          | _ -> l)
       | _ -> l)
  in
  if is_special_word body
  then true
  else let (ip, t) = span_digits body in
       (match t with
        | [] -> (match ip with
                 | [] -> false
                 | _ :: _ -> valid_exp t)
        | z0 :: t' ->
          (match z0 with
           | Zpos p ->
             (match p with
              | XO p0 ->
                (match p0 with
                 | XI p1 ->
                   (match p1 with
                    | XI p2 ->
                      (match p2 with
                       | XI p3 ->
                         (match p3 with
                          | XO p4 ->
                            (match p4 with
                             | XH ->
                               let (fp, t'') = span_digits t' in
                               (match ip with
                                | [] ->
                                  (match fp with
                                   | [] -> false
                                   | _ :: _ -> valid_exp t'')
                                | _ :: _ -> valid_exp t'')
                             | _ ->
                               (match ip with
                                | [] -> false
                                | _ :: _ -> valid_exp t))
                          | _ ->
                            (match ip with
                             | [] -> false
                             | _ :: _ -> valid_exp t))
                       | _ ->
                         (match ip with
                          | [] -> false
                          | _ :: _ -> valid_exp t))
                    | _ -> (match ip with
                            | [] -> false
                            | _ :: _ -> valid_exp t))
                 | _ -> (match ip with
                         | [] -> false
                         | _ :: _ -> valid_exp t))
              | _ -> (match ip with
                      | [] -> false
                      | _ :: _ -> valid_exp t))
           | _ -> (match ip with
                   | [] -> false
                   | _ :: _ -> valid_exp t)))

(** val decode_real : bytes -> hdr -> real res **)

let decode_real i0 h =
  if Z.eqb h.h_length Z0
  then Ok RZero
  else bind (slice_to i0 h.h_length) (fun i ->
         bind (idx i O) (fun f ->
           if testbit0 f (Zpos (XO (XO (XO (XO (XO (XO (XO XH))))))))
           then bind
                  (if Z.eqb (Z.coq_land f (Zpos (XI XH))) (Zpos (XI XH))
                   then (match nth_error i (S O) with
                         | Some b -> Ok ((Zpos (XO XH)), b)
                         | None -> Err InvalidData)
                   else Ok ((Zpos XH),
                          (Z.add (Z.coq_land f (Zpos (XI XH))) (Zpos XH))))
                  (fun ab ->
                  let (e_start, e_len) = ab in
                  let e_end = Z.add e_start e_len in
                  if (||) ((||) (Z.eqb e_len Z0) (Z.ltb (len i) e_end))
                       (Z.ltb (Zpos (XO (XO (XO (XO XH)))))
                         (Z.sub (len i) e_end))
                  then Err InvalidData
                  else let eo = takez e_len (dropz e_start i) in
                       bind (idx i (Z.to_nat e_start)) (fun e0 ->
                         let e =
                           fold_left (fun acc n0 ->
                             sat64
                               (Z.add
                                 (sat64
                                   (Z.mul acc (Zpos (XO (XO (XO (XO (XO (XO
                                     (XO (XO XH))))))))))) n0)) eo
                             (if Z.eqb
                                   (Z.coq_land e0 (Zpos (XO (XO (XO (XO (XO
                                     (XO (XO XH))))))))) Z0
                              then Z0
                              else Zneg XH)
                         in
                         let n0 =
                           fold_left (fun acc x ->
                             Z.coq_lor
                               (Z.shiftl acc (Zpos (XO (XO (XO XH))))) x)
                             (dropz e_end i) Z0
                         in
                         let scale =
                           Z.shiftr (Z.coq_land f (Zpos (XO (XO (XI XH)))))
                             (Zpos (XO XH))
                         in
                         let bb =
                           Z.coq_land f (Zpos (XO (XO (XO (XO (XI XH))))))
                         in
                         if negb
                              ((||)
                                ((||) (Z.eqb bb Z0)
                                  (Z.eqb bb (Zpos (XO (XO (XO (XO XH)))))))
                                (Z.eqb bb (Zpos (XO (XO (XO (XO (XO XH))))))))
                         then Err InvalidData
                         else let base_bits =
                                if Z.eqb bb Z0
                                then Zpos XH
                                else if Z.eqb bb (Zpos (XO (XO (XO (XO XH)))))
                                     then Zpos (XI XH)
                                     else Zpos (XO (XO XH))
                              in
                              let p =
                                Z.max (Zneg (XO (XO (XO (XO (XO (XI (XO (XI
                                  (XI (XI (XI XH))))))))))))
                                  (Z.min (Zpos (XO (XO (XO (XO (XO (XI (XO
                                    (XI (XI (XI (XI XH))))))))))))
                                    (sat64
                                      (Z.add (sat64 (Z.mul base_bits e))
                                        scale)))
                              in
                              Ok (RBin
                              ((testbit0 f (Zpos (XO (XO (XO (XO (XO (XO
                                 XH)))))))), n0, p))))
           else if Z.eqb
                     (Z.coq_land f (Zpos (XO (XO (XO (XO (XO (XO (XI
                       XH))))))))) Z0
                then let t = dropz (Zpos XH) i in
                     let form =
                       Z.coq_land f (Zpos (XI (XI (XI (XI (XI XH))))))
                     in
                     if Z.eqb form (Zpos XH)
                     then (match parse_i32 t with
                           | Some v -> Ok (RInt v)
                           | None -> Err InvalidData)
                     else if (||) (Z.eqb form (Zpos (XO XH)))
                               (Z.eqb form (Zpos (XI XH)))
                          then if is_rust_float t
                               then Ok (RDec t)
                               else Err InvalidData
                          else Err InvalidData
                else if Z.eqb f (Zpos (XO (XO (XO (XO (XO (XO XH)))))))
                     then Ok RPlusInf
                     else if Z.eqb f (Zpos (XI (XO (XO (XO (XO (XO XH)))))))
                          then Ok RMinusInf
                          else if Z.eqb f (Zpos (XO (XI (XO (XO (XO (XO
                                    XH)))))))
                               then Ok RNaN
                               else if Z.eqb f (Zpos (XI (XI (XO (XO (XO (XO
                                         XH)))))))
                                    then Ok RMinusZero
                                    else Err InvalidData))

type value =
| VBool of bool
| VInt of z
| VNull
| VOctetString of bytes
| VOid of bytes
| VObjectDescriptor of bytes
| VReal of real
| VIpAddress of z * z * z * z
| VCounter32 of z
| VGauge32 of z
| VTimeTicks of z
| VOpaque of bytes
| VCounter64 of z
| VUInteger32 of z
| VNoSuchObject
| VNoSuchInstance
| VEndOfMibView

(** val value_from_ber : bytes -> (bytes * value) res **)

let value_from_ber i =
  bind (parse_header i) (fun ab ->
    let (tail, h) = ab in
    bind
      (if h.h_constructed
       then Err UnsupportedTag
       else let t = h.h_tag in
            if Z.eqb h.h_class Z0
            then if Z.eqb t tAG_BOOL
                 then bind (decode_bool tail h) (fun b -> Ok (VBool b))
                 else if Z.eqb t tAG_INT
                      then bind (decode_int tail h) (fun z0 -> Ok (VInt z0))
                      else if Z.eqb t tAG_OCTET_STRING
                           then bind (decode_slice tail h) (fun b -> Ok
                                  (VOctetString b))
                           else if Z.eqb t tAG_NULL
                                then bind (decode_null tail h) (fun _ -> Ok
                                       VNull)
                                else if Z.eqb t tAG_OBJECT_ID
                                     then bind (decode_slice tail h)
                                            (fun b -> Ok (VOid b))
                                     else if Z.eqb t tAG_OBJECT_DESCRIPTOR
                                          then bind (decode_slice tail h)
                                                 (fun b -> Ok
                                                 (VObjectDescriptor b))
                                          else if Z.eqb t tAG_REAL
                                               then bind (decode_real tail h)
                                                      (fun r -> Ok (VReal r))
                                               else Err UnsupportedTag
            else if Z.eqb h.h_class (Zpos XH)
                 then if Z.eqb t tAG_APP_IPADDRESS
                      then bind (decode_ip tail h) (fun ab0 ->
                             let (abc, d) = ab0 in
                             let (ab1, c) = abc in
                             let (a, b) = ab1 in Ok (VIpAddress (a, b, c, d)))
                      else if Z.eqb t tAG_APP_COUNTER32
                           then bind (decode_u32 tail h) (fun z0 -> Ok
                                  (VCounter32 z0))
                           else if Z.eqb t tAG_APP_GAUGE32
                                then bind (decode_u32 tail h) (fun z0 -> Ok
                                       (VGauge32 z0))
                                else if Z.eqb t tAG_APP_TIMETICKS
                                     then bind (decode_u32 tail h) (fun z0 ->
                                            Ok (VTimeTicks z0))
                                     else if Z.eqb t tAG_APP_OPAQUE
                                          then bind (decode_slice tail h)
                                                 (fun b -> Ok (VOpaque b))
                                          else if Z.eqb t tAG_APP_COUNTER64
                                               then bind (decode_u64 tail h)
                                                      (fun z0 -> Ok
                                                      (VCounter64 z0))
                                               else if Z.eqb t
                                                         tAG_APP_UINTEGER32
                                                    then bind
                                                           (decode_u32 tail h)
                                                           (fun z0 -> Ok
                                                           (VUInteger32 z0))
                                                    else Err UnsupportedTag
                 else if Z.eqb h.h_class (Zpos (XO XH))
                      then if Z.eqb t tAG_CTX_NO_SUCH_OBJECT
                           then Ok VNoSuchObject
                           else if Z.eqb t tAG_CTX_NO_SUCH_INSTANCE
                                then Ok VNoSuchInstance
                                else if Z.eqb t tAG_CTX_END_OF_MIB_VIEW
                                     then Ok VEndOfMibView
                                     else Err UnsupportedTag
                      else Err UnsupportedTag) (fun v ->
      bind (slice_from tail h.h_length) (fun rest -> Ok (rest, v))))

(** val int_from_ber : bytes -> (bytes * z) res **)

let int_from_ber =
  from_ber tAG_INT true false decode_int

(** val null_from_ber : bytes -> (bytes * unit) res **)

let null_from_ber =
  from_ber tAG_NULL true false decode_null

(** val oid_from_ber : bytes -> (bytes * bytes) res **)

let oid_from_ber =
  from_ber tAG_OBJECT_ID true false decode_slice

(** val octetstring_from_ber : bytes -> (bytes * bytes) res **)

let octetstring_from_ber =
  from_ber tAG_OCTET_STRING true false decode_slice

(** val reloid_from_ber : bytes -> (bytes * bytes) res **)

let reloid_from_ber =
  from_ber tAG_RELATIVE_OID true false decode_slice

(** val sequence_from_ber : bytes -> (bytes * bytes) res **)

let sequence_from_ber =
  from_ber tAG_SEQUENCE false true decode_slice

(** val option_from_ber : bytes -> (bytes * (z * bytes)) res **)

let option_from_ber i =
  if Z.ltb (len i) (Zpos (XI XH))
  then Err Incomplete
  else bind (parse_header i) (fun ab ->
         let (tail, h) = ab in
         if (||) (negb h.h_constructed)
              ((&&) (negb (Z.eqb h.h_class (Zpos (XO XH))))
                (negb (Z.eqb h.h_class Z0)))
         then Err UnexpectedTag
         else bind (slice_from tail h.h_length) (fun rest ->
                bind (slice_to tail h.h_length) (fun v -> Ok (rest, (h.h_tag,
                  v)))))

(** val subelements : bytes -> z **)

let subelements d =
  fold_left (fun acc c ->
    if Z.eqb (Z.coq_land c (Zpos (XO (XO (XO (XO (XO (XO (XO XH))))))))) Z0
    then Z.add acc (Zpos XH)
    else acc) d Z0

(** val find_sub : bytes -> z -> z -> z -> z -> z option **)

let rec find_sub d total left start offset =
  match d with
  | [] -> None
  | c :: r ->
    if Z.eqb left Z0
    then if Z.ltb start total then Some start else None
    else if Z.eqb (Z.coq_land c (Zpos (XO (XO (XO (XO (XO (XO (XO XH)))))))))
              Z0
         then find_sub r total (Z.sub left (Zpos XH))
                (Z.add offset (Zpos XH)) (Z.add offset (Zpos XH))
         else find_sub r total left start (Z.add offset (Zpos XH))

(** val find_subelement : bytes -> z -> z option **)

let find_subelement d n0 =
  find_sub d (len d) n0 Z0 Z0

(** val normalize : bytes -> bytes -> bytes res **)

let normalize rel oid =
  bind (slice_from oid (Zpos XH)) (fun oid1 ->
    let rel_si = subelements rel in
    let base_si = Z.add (subelements oid1) (Zpos (XO XH)) in
    if Z.ltb rel_si (Z.sub base_si (Zpos (XO XH)))
    then let offset =
           Z.add
             (match find_subelement oid1
                      (Z.sub (Z.sub base_si rel_si) (Zpos (XO XH))) with
              | Some o -> o
              | None -> Z0) (Zpos XH)
         in
         bind (slice_to oid offset) (fun pre -> Ok (app pre rel))
    else if Z.ltb (len rel) (Zpos XH)
         then Panic
         else bind (idx rel O) (fun a ->
                bind (idx rel (S O)) (fun b ->
                  if Z.ltb (Zpos (XI (XI (XI (XI (XI (XI (XI XH))))))))
                       (Z.add (Z.mul a (Zpos (XO (XO (XO (XI (XO XH))))))) b)
                  then Panic
                  else bind (slice_from rel (Zpos (XO XH))) (fun r2 -> Ok
                         ((Z.add (Z.mul a (Zpos (XO (XO (XO (XI (XO XH)))))))
                            b) :: r2)))))

(** val try_normalize : bytes -> bytes -> bytes res **)

let try_normalize rel oid = match oid with
| [] -> Err InvalidData
| _ :: oid1 ->
  let rel_si = subelements rel in
  let base_si = subelements oid1 in
  if (&&) (Z.leb base_si rel_si)
       ((||) (Z.ltb (len rel) (Zpos (XO XH)))
         (match rel with
          | [] -> true
          | a :: l ->
            (match l with
             | [] -> true
             | b :: _ ->
               Z.ltb (Zpos (XI (XI (XI (XI (XI (XI (XI XH))))))))
                 (Z.add (Z.mul a (Zpos (XO (XO (XO (XI (XO XH))))))) b))))
  then Err InvalidData
  else normalize rel oid

type varbind = { vb_oid : bytes; vb_value : value }

type getresponse = { gr_request_id : z; gr_error_status : z;
                     gr_error_index : z; gr_vars : varbind list }

type getreq = { g_request_id : z; g_vars : bytes list }

type getbulk = { gb_request_id : z; gb_non_repeaters : z;
                 gb_max_repetitions : z; gb_vars : bytes list }

type pdu =
| PGetRequest of getreq
| PGetNextRequest of getreq
| PGetResponse of getresponse
| PGetBulkRequest of getbulk
| PReport of bytes

(** val resp_vars : nat -> bytes -> varbind list -> varbind list res **)

let rec resp_vars fuel v_tail acc =
  match v_tail with
  | [] -> Ok (rev acc)
  | _ :: _ ->
    (match fuel with
     | O -> Panic
     | S fuel' ->
       bind (sequence_from_ber v_tail) (fun ab ->
         let (rest, vs) = ab in
         (match vs with
          | [] -> Err Incomplete
          | t0 :: _ ->
            bind
              (if Z.eqb t0 tAG_OBJECT_ID
               then oid_from_ber vs
               else if Z.eqb t0 tAG_RELATIVE_OID
                    then (match acc with
                          | [] -> Err UnexpectedTag
                          | prev :: _ ->
                            bind (reloid_from_ber vs) (fun ab0 ->
                              let (t, r_oid) = ab0 in
                              bind (try_normalize r_oid prev.vb_oid)
                                (fun oid -> Ok (t, oid))))
                    else Err UnexpectedTag) (fun ab0 ->
              let (tail, oid) = ab0 in
              bind (value_from_ber tail) (fun ab1 ->
                let (_, v) = ab1 in
                resp_vars fuel' rest ({ vb_oid = oid; vb_value = v } :: acc))))))

(** val getresponse_decode : bytes -> getresponse res **)

let getresponse_decode i =
  bind (int_from_ber i) (fun ab ->
    let (tail, request_id0) = ab in
    bind (int_from_ber tail) (fun ab0 ->
      let (tail0, error_status) = ab0 in
      bind (int_from_ber tail0) (fun ab1 ->
        let (tail1, error_index) = ab1 in
        bind (sequence_from_ber tail1) (fun ab2 ->
          let (tail2, vb) = ab2 in
          (match tail2 with
           | [] ->
             bind (resp_vars (length vb) vb []) (fun vars -> Ok
               { gr_request_id = request_id0; gr_error_status = error_status;
               gr_error_index = error_index; gr_vars = vars })
           | _ :: _ -> Err TrailingData)))))

(** val parse_var : bytes -> (bytes * bytes) res **)

let parse_var i =
  bind (sequence_from_ber i) (fun ab ->
    let (rest, vs) = ab in
    bind (oid_from_ber vs) (fun ab0 ->
      let (tail, oid) = ab0 in
      bind (null_from_ber tail) (fun _ -> Ok (rest, oid))))

(** val req_vars : nat -> bytes -> bytes list -> bytes list res **)

let rec req_vars fuel v_tail acc =
  match v_tail with
  | [] -> Ok (rev acc)
  | _ :: _ ->
    (match fuel with
     | O -> Panic
     | S fuel' ->
       bind (parse_var v_tail) (fun ab ->
         let (rest, oid) = ab in req_vars fuel' rest (oid :: acc)))

(** val get_decode : bytes -> getreq res **)

let get_decode i =
  bind (int_from_ber i) (fun ab ->
    let (tail, request_id0) = ab in
    bind (int_from_ber tail) (fun ab0 ->
      let (tail0, error_status) = ab0 in
      if negb (Z.eqb error_status Z0)
      then Err InvalidPdu
      else bind (int_from_ber tail0) (fun ab1 ->
             let (tail1, error_index) = ab1 in
             if negb (Z.eqb error_index Z0)
             then Err InvalidPdu
             else bind (sequence_from_ber tail1) (fun ab2 ->
                    let (tail2, vb) = ab2 in
                    (match tail2 with
                     | [] ->
                       bind (req_vars (length vb) vb []) (fun vars -> Ok
                         { g_request_id = request_id0; g_vars = vars })
                     | _ :: _ -> Err TrailingData)))))

(** val getbulk_decode : bytes -> getbulk res **)

let getbulk_decode i =
  bind (int_from_ber i) (fun ab ->
    let (tail, request_id0) = ab in
    bind (int_from_ber tail) (fun ab0 ->
      let (tail0, non_repeaters) = ab0 in
      bind (int_from_ber tail0) (fun ab1 ->
        let (tail1, max_repetitions) = ab1 in
        bind (sequence_from_ber tail1) (fun ab2 ->
          let (tail2, vb) = ab2 in
          (match tail2 with
           | [] ->
             bind (req_vars (length vb) vb []) (fun vars -> Ok
               { gb_request_id = request_id0; gb_non_repeaters =
               non_repeaters; gb_max_repetitions = max_repetitions; gb_vars =
               vars })
           | _ :: _ -> Err TrailingData)))))

(** val pdu_decode : bytes -> pdu res **)

let pdu_decode i =
  bind (option_from_ber i) (fun ab ->
    let (_, opt) = ab in
    let (tag, v) = opt in
    if Z.eqb tag pDU_GET_REQUEST
    then bind (get_decode v) (fun g -> Ok (PGetRequest g))
    else if Z.eqb tag pDU_GETNEXT_REQUEST
         then bind (get_decode v) (fun g -> Ok (PGetNextRequest g))
         else if Z.eqb tag pDU_GET_RESPONSE
              then bind (getresponse_decode v) (fun r -> Ok (PGetResponse r))
              else if Z.eqb tag pDU_GET_BULK_REQUEST
                   then bind (getbulk_decode v) (fun b -> Ok (PGetBulkRequest
                          b))
                   else if Z.eqb tag pDU_REPORT
                        then Ok (PReport v)
                        else Err UnknownPdu)

(** val pdu_request_id : pdu -> z option **)

let pdu_request_id = function
| PGetRequest g -> Some g.g_request_id
| PGetNextRequest g -> Some g.g_request_id
| PGetResponse r -> Some r.gr_request_id
| PGetBulkRequest b -> Some b.gb_request_id
| PReport _ -> None

(** val pdu_check : pdu -> z -> bool **)

let pdu_check p request_id0 =
  match pdu_request_id p with
  | Some i -> Z.eqb request_id0 i
  | None -> true

(** val as_u8 : z -> z **)

let as_u8 z0 =
  Z.modulo z0 (Zpos (XO (XO (XO (XO (XO (XO (XO (XO XH)))))))))

type usm = { u_engine_id : bytes; u_engine_boots : z; u_engine_time : 
             z; u_user_name : bytes; u_auth_params : bytes;
             u_privacy_params : bytes }

type scoped = { s_engine_id : bytes; s_pdu : pdu }

type msgdata =
| Plaintext of scoped
| Encrypted of bytes

type v3msg = { m_msg_id : z; m_flag_auth : bool; m_flag_priv : bool;
               m_flag_report : bool; m_usm : usm; m_data : msgdata }

(** val usm_decode : bytes -> usm res **)

let usm_decode i =
  bind (sequence_from_ber i) (fun ab ->
    let (tail, envelope) = ab in
    (match tail with
     | [] ->
       bind (octetstring_from_ber envelope) (fun ab0 ->
         let (tail0, engine_id0) = ab0 in
         bind (int_from_ber tail0) (fun ab1 ->
           let (tail1, engine_boots0) = ab1 in
           bind (int_from_ber tail1) (fun ab2 ->
             let (tail2, engine_time0) = ab2 in
             bind (octetstring_from_ber tail2) (fun ab3 ->
               let (tail3, user_name0) = ab3 in
               bind (octetstring_from_ber tail3) (fun ab4 ->
                 let (tail4, auth_parameters) = ab4 in
                 bind (octetstring_from_ber tail4) (fun ab5 ->
                   let (_, privacy_parameters) = ab5 in
                   Ok { u_engine_id = engine_id0; u_engine_boots =
                   engine_boots0; u_engine_time = engine_time0; u_user_name =
                   user_name0; u_auth_params = auth_parameters;
                   u_privacy_params = privacy_parameters }))))))
     | _ :: _ -> Err TrailingData))

(** val scoped_decode : bytes -> scoped res **)

let scoped_decode i =
  bind (sequence_from_ber i) (fun ab ->
    let (_, envelope) = ab in
    bind (octetstring_from_ber envelope) (fun ab0 ->
      let (tail, engine_id0) = ab0 in
      bind (octetstring_from_ber tail) (fun ab1 ->
        let (tail0, _) = ab1 in
        bind (pdu_decode tail0) (fun p -> Ok { s_engine_id = engine_id0;
          s_pdu = p }))))

(** val msgdata_decode : bytes -> msgdata res **)

let msgdata_decode i = match i with
| [] -> Err Incomplete
| t :: _ ->
  if Z.eqb t tAG_OCTET_STRING
  then bind (octetstring_from_ber i) (fun ab ->
         let (_, os) = ab in Ok (Encrypted os))
  else bind (scoped_decode i) (fun s -> Ok (Plaintext s))

(** val v3_decode : bytes -> v3msg res **)

let v3_decode i =
  bind (sequence_from_ber i) (fun ab ->
    let (tail, envelope) = ab in
    (match tail with
     | [] ->
       bind (int_from_ber envelope) (fun ab0 ->
         let (tail0, v_code) = ab0 in
         if negb (Z.eqb (as_u8 v_code) sNMP_V3)
         then Err InvalidVersion
         else bind (sequence_from_ber tail0) (fun ab1 ->
                let (sp_tail, envelope0) = ab1 in
                bind (int_from_ber envelope0) (fun ab2 ->
                  let (tail1, msg_id0) = ab2 in
                  bind (int_from_ber tail1) (fun ab3 ->
                    let (tail2, _) = ab3 in
                    bind (octetstring_from_ber tail2) (fun ab4 ->
                      let (tail3, flags_data) = ab4 in
                      if negb (Z.eqb (len flags_data) (Zpos XH))
                      then Err InvalidPdu
                      else bind (idx flags_data O) (fun flags ->
                             bind (int_from_ber tail3) (fun ab5 ->
                               let (_, security_model) = ab5 in
                               if negb
                                    (Z.eqb (as_u8 security_model) uSM_MODEL)
                               then Err UnknownSecurityModel
                               else bind (octetstring_from_ber sp_tail)
                                      (fun ab6 ->
                                      let (tail4, security_parameters) = ab6
                                      in
                                      bind (usm_decode security_parameters)
                                        (fun u ->
                                        bind (msgdata_decode tail4) (fun d ->
                                          Ok { m_msg_id = msg_id0;
                                          m_flag_auth =
                                          (testbit0 flags fLAG_AUTH);
                                          m_flag_priv =
                                          (testbit0 flags fLAG_PRIV);
                                          m_flag_report =
                                          (testbit0 flags fLAG_REPORT);
                                          m_usm = u; m_data = d }))))))))))
     | _ :: _ -> Err TrailingData))

type buffer = { data : bytes; bookmark : z }

(** val empty_buffer : buffer **)

let empty_buffer =
  { data = []; bookmark = Z0 }

(** val blen : buffer -> z **)

let blen b =
  len b.data

(** val pos : buffer -> z **)

let pos b =
  Z.sub bUF_MAX_SIZE (blen b)

(** val with_data : buffer -> bytes -> buffer **)

let with_data b d =
  { data = d; bookmark = b.bookmark }

(** val push_u8 : buffer -> z -> buffer res **)

let push_u8 b v =
  if Z.eqb (pos b) Z0 then Err OutOfBuffer else Ok (with_data b (v :: b.data))

(** val push : buffer -> bytes -> buffer res **)

let push b chunk =
  if Z.ltb (pos b) (len chunk)
  then Err OutOfBuffer
  else Ok (with_data b (app chunk b.data))

(** val push_tag_len : buffer -> z -> z -> buffer res **)

let push_tag_len b tag v =
  if Z.ltb v (Zpos (XO (XO (XO (XO (XO (XO (XO XH))))))))
  then if Z.ltb (pos b) (Zpos (XO XH))
       then Err OutOfBuffer
       else Ok (with_data b (tag :: ((wrap8 v) :: b.data)))
  else if Z.ltb v (Zpos (XO (XO (XO (XO (XO (XO (XO (XO XH)))))))))
       then if Z.ltb (pos b) (Zpos (XI XH))
            then Err OutOfBuffer
            else Ok
                   (with_data b (tag :: ((Zpos (XI (XO (XO (XO (XO (XO (XO
                     XH)))))))) :: ((wrap8 v) :: b.data))))
       else if Z.ltb (pos b) (Zpos (XO (XO XH)))
            then Err OutOfBuffer
            else Ok
                   (with_data b (tag :: ((Zpos (XO (XI (XO (XO (XO (XO (XO
                     XH)))))))) :: ((wrap8
                                      (Z.shiftr v (Zpos (XO (XO (XO XH)))))) :: (
                     (wrap8 v) :: b.data)))))

(** val push_tagged : buffer -> z -> bytes -> buffer res **)

let push_tagged b tag d =
  bind (push b d) (fun b0 -> push_tag_len b0 tag (len d))

(** val set_bookmark : buffer -> z -> buffer **)

let set_bookmark b delta =
  { data = b.data; bookmark = (Z.add (pos b) delta) }

(** val get_bookmark : buffer -> z **)

let get_bookmark b =
  wrap64 (Z.sub b.bookmark (pos b))

(** val int_pos_loop : nat -> buffer -> z -> buffer res **)

let rec int_pos_loop fuel b left =
  match fuel with
  | O -> Panic
  | S f ->
    bind
      (push_u8 b
        (Z.coq_land left (Zpos (XI (XI (XI (XI (XI (XI (XI XH))))))))))
      (fun b0 ->
      if Z.ltb left (Zpos (XI (XI (XI (XI (XI (XI (XI XH))))))))
      then if Z.eqb
                (Z.coq_land left (Zpos (XO (XO (XO (XO (XO (XO (XO XH)))))))))
                (Zpos (XO (XO (XO (XO (XO (XO (XO XH))))))))
           then push_u8 b0 Z0
           else Ok b0
      else int_pos_loop f b0 (Z.shiftr left (Zpos (XO (XO (XO XH))))))

(** val int_neg_loop : nat -> buffer -> z -> buffer res **)

let rec int_neg_loop fuel b left =
  match fuel with
  | O -> Panic
  | S f ->
    bind
      (push_u8 b
        (Z.coq_land left (Zpos (XI (XI (XI (XI (XI (XI (XI XH))))))))))
      (fun b0 ->
      if Z.leb (Zneg (XO (XO (XO (XO (XO (XO (XO XH)))))))) left
      then Ok b0
      else int_neg_loop f b0 (Z.shiftr left (Zpos (XO (XO (XO XH))))))

(** val push_int : buffer -> z -> buffer res **)

let push_int b v =
  if Z.eqb v Z0
  then push b (tAG_INT :: ((Zpos XH) :: (Z0 :: [])))
  else let start = blen b in
       bind
         (if Z.ltb Z0 v
          then int_pos_loop (S (S (S (S (S (S (S (S (S (S O)))))))))) b v
          else int_neg_loop (S (S (S (S (S (S (S (S (S (S O)))))))))) b v)
         (fun b' -> push_tag_len b' tAG_INT (Z.sub (blen b') start))

(** val push_oid : buffer -> bytes -> buffer res **)

let push_oid b oid =
  bind (push b oid) (fun b0 -> push_tag_len b0 tAG_OBJECT_ID (len oid))

(** val push_null : buffer -> buffer res **)

let push_null b =
  push b ((Zpos (XI (XO XH))) :: (Z0 :: []))

(** val push_vars_rev : buffer -> bytes list -> buffer res **)

let rec push_vars_rev b = function
| [] -> Ok b
| oid :: r ->
  let start = blen b in
  bind (push_null b) (fun b0 ->
    bind (push_oid b0 oid) (fun b1 ->
      bind
        (push_tag_len b1 (Zpos (XO (XO (XO (XO (XI XH))))))
          (Z.sub (blen b1) start)) (fun b2 -> push_vars_rev b2 r)))

(** val push_get : buffer -> getreq -> buffer res **)

let push_get b g =
  let rest = blen b in
  bind (push_vars_rev b (rev g.g_vars)) (fun b0 ->
    bind
      (push_tag_len b0 (Zpos (XO (XO (XO (XO (XI XH))))))
        (Z.sub (blen b0) rest)) (fun b1 ->
      bind
        (push b1 ((Zpos (XO XH)) :: ((Zpos XH) :: (Z0 :: ((Zpos (XO
          XH)) :: ((Zpos XH) :: (Z0 :: []))))))) (fun b2 ->
        push_int b2 g.g_request_id)))

(** val push_getbulk : buffer -> getbulk -> buffer res **)

let push_getbulk b g =
  let rest = blen b in
  bind (push_vars_rev b (rev g.gb_vars)) (fun b0 ->
    bind
      (push_tag_len b0 (Zpos (XO (XO (XO (XO (XI XH))))))
        (Z.sub (blen b0) rest)) (fun b1 ->
      bind (push_int b1 g.gb_max_repetitions) (fun b2 ->
        bind (push_int b2 g.gb_non_repeaters) (fun b3 ->
          push_int b3 g.gb_request_id))))

(** val push_pdu : buffer -> pdu -> buffer res **)

let push_pdu b p =
  let rest = blen b in
  (match p with
   | PGetRequest g ->
     bind (push_get b g) (fun b0 ->
       push_tag_len b0 pDU_TAG_GET (Z.sub (blen b0) rest))
   | PGetNextRequest g ->
     bind (push_get b g) (fun b0 ->
       push_tag_len b0 pDU_TAG_GETNEXT (Z.sub (blen b0) rest))
   | PGetBulkRequest g ->
     bind (push_getbulk b g) (fun b0 ->
       push_tag_len b0 pDU_TAG_GETBULK (Z.sub (blen b0) rest))
   | _ -> Err NotImplemented)

(** val eMPTY_BER : bytes **)

let eMPTY_BER =
  tAG_OCTET_STRING :: (Z0 :: [])

(** val push_os_or_empty : buffer -> bytes -> buffer res **)

let push_os_or_empty b d = match d with
| [] -> push b eMPTY_BER
| _ :: _ -> push_tagged b tAG_OCTET_STRING d

(** val push_usm : buffer -> usm -> buffer res **)

let push_usm b u =
  let l0 = blen b in
  bind (push_os_or_empty b u.u_privacy_params) (fun b0 ->
    bind
      (match u.u_auth_params with
       | [] -> push b0 eMPTY_BER
       | z0 :: l ->
         bind (push_tagged b0 tAG_OCTET_STRING (z0 :: l)) (fun b1 -> Ok
           (set_bookmark b1 (Zpos (XO XH))))) (fun b1 ->
      bind (push_tagged b1 tAG_OCTET_STRING u.u_user_name) (fun b2 ->
        bind (push_int b2 u.u_engine_time) (fun b3 ->
          bind (push_int b3 u.u_engine_boots) (fun b4 ->
            bind (push_os_or_empty b4 u.u_engine_id) (fun b5 ->
              push_tag_len b5 (Zpos (XO (XO (XO (XO (XI XH))))))
                (Z.sub (blen b5) l0)))))))

(** val push_scoped : buffer -> scoped -> buffer res **)

let push_scoped b s =
  let rest = blen b in
  bind (push_pdu b s.s_pdu) (fun b0 ->
    bind (push b0 eMPTY_BER) (fun b1 ->
      bind (push_os_or_empty b1 s.s_engine_id) (fun b2 ->
        push_tag_len b2 (Zpos (XO (XO (XO (XO (XI XH))))))
          (Z.sub (blen b2) rest))))

(** val push_msgdata : buffer -> msgdata -> buffer res **)

let push_msgdata b = function
| Plaintext s -> push_scoped b s
| Encrypted x -> push_tagged b tAG_OCTET_STRING x

(** val flags_octet : v3msg -> z **)

let flags_octet m =
  Z.add
    (Z.add (if m.m_flag_auth then fLAG_AUTH else Z0)
      (if m.m_flag_priv then fLAG_PRIV else Z0))
    (if m.m_flag_report then fLAG_REPORT else Z0)

(** val push_v3 : buffer -> v3msg -> buffer res **)

let push_v3 b m =
  bind (push_msgdata b m.m_data) (fun b0 ->
    let ln = blen b0 in
    bind (push_usm b0 m.m_usm) (fun b1 ->
      bind (push_tag_len b1 tAG_OCTET_STRING (Z.sub (blen b1) ln)) (fun b2 ->
        let ln0 = blen b2 in
        bind (push b2 (tAG_INT :: ((Zpos XH) :: (uSM_MODEL :: []))))
          (fun b3 ->
          bind (push_u8 b3 (flags_octet m)) (fun b4 ->
            bind (push_tag_len b4 tAG_OCTET_STRING (Zpos XH)) (fun b5 ->
              bind (push_int b5 v3_MAX_SIZE) (fun b6 ->
                bind (push_int b6 m.m_msg_id) (fun b7 ->
                  bind
                    (push_tag_len b7 (Zpos (XO (XO (XO (XO (XI XH))))))
                      (Z.sub (blen b7) ln0)) (fun b8 ->
                    bind
                      (push b8 (tAG_INT :: ((Zpos XH) :: (sNMP_V3 :: []))))
                      (fun b9 ->
                      push_tag_len b9 (Zpos (XO (XO (XO (XO (XI XH))))))
                        (blen b9)))))))))))

type exc =
| ESnmpError
| EDecode
| EEncode
| EAuth
| ENoSuchInstance
| EValue
| ETimeout
| EBlockingIO
| EOSError
| ENotImplemented
| ERuntime
| EStopAsyncIteration
| EStopIteration
| EException

type 'a outcome =
| Return of 'a
| Raise of exc
| Crash

(** val err_to_exc : err -> exc **)

let err_to_exc = function
| InvalidKey -> EValue
| OutOfBuffer -> EEncode
| NotImplemented -> ENotImplemented
| NoSuchInstance -> ENoSuchInstance
| SocketError -> EOSError
| WouldBlock -> EBlockingIO
| ConnectionRefused -> ETimeout
| AuthenticationFailed -> EAuth
| _ -> EDecode

(** val dOT : z **)

let dOT =
  Zpos (XO (XI (XI (XI (XO XH)))))

(** val dec_loop : nat -> z -> bytes -> bytes **)

let rec dec_loop fuel z0 acc =
  match fuel with
  | O -> acc
  | S f ->
    let acc' =
      (Z.add (Zpos (XO (XO (XO (XO (XI XH))))))
        (Z.modulo z0 (Zpos (XO (XI (XO XH)))))) :: acc
    in
    if Z.ltb z0 (Zpos (XO (XI (XO XH))))
    then acc'
    else dec_loop f (Z.div z0 (Zpos (XO (XI (XO XH))))) acc'

(** val dec : z -> bytes **)

let dec z0 =
  dec_loop (S (S (S (S (S (S (S (S (S (S (S (S (S (S (S (S (S (S (S (S (S (S
    (S (S O)))))))))))))))))))))))) z0 []

(** val print_rest : bytes -> z -> bytes **)

let rec print_rest l b =
  match l with
  | [] -> []
  | c :: r ->
    let b' =
      wrap32
        (Z.add (Z.mul b (Zpos (XO (XO (XO (XO (XO (XO (XO XH)))))))))
          (Z.coq_land c (Zpos (XI (XI (XI (XI (XI (XI XH)))))))))
    in
    if Z.eqb (Z.coq_land c (Zpos (XO (XO (XO (XO (XO (XO (XO XH))))))))) Z0
    then dOT :: (app (dec b') (print_rest r Z0))
    else print_rest r b'

(** val text_of_oid : bytes -> bytes res **)

let text_of_oid = function
| [] -> Err InvalidData
| first :: r ->
  Ok
    (app (dec (Z.div first (Zpos (XO (XO (XO (XI (XO XH))))))))
      (dOT :: (app (dec (Z.modulo first (Zpos (XO (XO (XO (XI (XO XH))))))))
                (print_rest r Z0))))

(** val ip_text : z -> z -> z -> z -> bytes **)

let ip_text a b c d =
  app (dec a) (dOT :: (app (dec b) (dOT :: (app (dec c) (dOT :: (dec d))))))

type pv =
| PvNone
| PvBool of bool
| PvInt of z
| PvBytes of bytes
| PvStr of bytes
| PvFloat of real

(** val value_to_py : value -> pv res **)

let value_to_py = function
| VBool b -> Ok (PvBool b)
| VInt z0 -> Ok (PvInt z0)
| VOctetString b -> Ok (PvBytes b)
| VOid o -> bind (text_of_oid o) (fun s -> Ok (PvStr s))
| VObjectDescriptor b -> Ok (PvBytes b)
| VReal r -> Ok (PvFloat r)
| VIpAddress (a, b, c, d) -> Ok (PvStr (ip_text a b c d))
| VCounter32 z0 -> Ok (PvInt z0)
| VGauge32 z0 -> Ok (PvInt z0)
| VTimeTicks z0 -> Ok (PvInt z0)
| VOpaque b -> Ok (PvBytes b)
| VCounter64 z0 -> Ok (PvInt z0)
| VUInteger32 z0 -> Ok (PvInt z0)
| _ -> Panic

(** val lift : 'a1 res -> 'a1 outcome **)

let lift = function
| Ok a -> Return a
| Err e -> Raise (err_to_exc e)
| Panic -> Crash

(** val get_to_python : pdu -> pv outcome **)

let get_to_python = function
| PGetResponse r ->
  (match r.gr_vars with
   | [] -> Return PvNone
   | vb :: l ->
     (match l with
      | [] ->
        (match vb.vb_value with
         | VNull -> Return PvNone
         | VNoSuchObject -> Raise (err_to_exc NoSuchInstance)
         | VNoSuchInstance -> Raise (err_to_exc NoSuchInstance)
         | VEndOfMibView -> Raise (err_to_exc NoSuchInstance)
         | x -> lift (value_to_py x))
      | _ :: _ -> Raise (err_to_exc InvalidPdu)))
| PReport _ -> Raise (err_to_exc AuthenticationFailed)
| _ -> Raise (err_to_exc InvalidPdu)

type 'a recv_result =
| Delivered of 'a * bytes list
| Failed of exc * bytes list
| Crashed
| TimedOut

(** val mASK32 : z **)

let mASK32 =
  Zpos (XI (XI (XI (XI (XI (XI (XI (XI (XI (XI (XI (XI (XI (XI (XI (XI (XI
    (XI (XI (XI (XI (XI (XI (XI (XI (XI (XI (XI (XI (XI (XI
    XH)))))))))))))))))))))))))))))))

(** val add32 : z -> z -> z **)

let add32 a b =
  Z.coq_land (Z.add a b) mASK32

(** val not32 : z -> z **)

let not32 x =
  Z.coq_lxor x mASK32

(** val rotl32 : z -> z -> z **)

let rotl32 x n0 =
  Z.coq_lor (Z.coq_land (Z.shiftl x n0) mASK32)
    (Z.shiftr x (Z.sub (Zpos (XO (XO (XO (XO (XO XH)))))) n0))

(** val rotl32_split : z -> z -> z -> z -> z **)

let rotl32_split x n0 m lowmask =
  Z.coq_lor (Z.shiftl (Z.coq_land x lowmask) n0) (Z.shiftr x m)

(** val le32 : z -> z -> z -> z -> z **)

let le32 a b c d =
  Z.coq_land
    (Z.coq_lor a
      (Z.coq_lor (Z.shiftl b (Zpos (XO (XO (XO XH)))))
        (Z.coq_lor (Z.shiftl c (Zpos (XO (XO (XO (XO XH))))))
          (Z.shiftl d (Zpos (XO (XO (XO (XI XH))))))))) mASK32

(** val be32 : z -> z -> z -> z -> z **)

let be32 a b c d =
  le32 d c b a

(** val le_bytes : z -> z list **)

let le_bytes w =
  (Z.coq_land w (Zpos (XI (XI (XI (XI (XI (XI (XI XH))))))))) :: ((Z.coq_land
                                                                    (Z.shiftr
                                                                    w (Zpos
                                                                    (XO (XO
                                                                    (XO
                                                                    XH)))))
                                                                    (Zpos (XI
                                                                    (XI (XI
                                                                    (XI (XI
                                                                    (XI (XI
                                                                    XH))))))))) :: (
    (Z.coq_land (Z.shiftr w (Zpos (XO (XO (XO (XO XH)))))) (Zpos (XI (XI (XI
      (XI (XI (XI (XI XH))))))))) :: ((Z.coq_land
                                        (Z.shiftr w (Zpos (XO (XO (XO (XI
                                          XH)))))) (Zpos (XI (XI (XI (XI (XI
                                        (XI (XI XH))))))))) :: [])))

(** val be_bytes : z -> z list **)

let be_bytes w =
  (Z.coq_land (Z.shiftr w (Zpos (XO (XO (XO (XI XH)))))) (Zpos (XI (XI (XI
    (XI (XI (XI (XI XH))))))))) :: ((Z.coq_land
                                      (Z.shiftr w (Zpos (XO (XO (XO (XO
                                        XH)))))) (Zpos (XI (XI (XI (XI (XI
                                      (XI (XI XH))))))))) :: ((Z.coq_land
                                                                (Z.shiftr w
                                                                  (Zpos (XO
                                                                  (XO (XO
                                                                  XH)))))
                                                                (Zpos (XI (XI
                                                                (XI (XI (XI
                                                                (XI (XI
                                                                XH))))))))) :: (
    (Z.coq_land w (Zpos (XI (XI (XI (XI (XI (XI (XI XH))))))))) :: [])))

(** val le64_bytes : z -> z list **)

let le64_bytes n0 =
  app (le_bytes (Z.coq_land n0 mASK32))
    (le_bytes
      (Z.coq_land (Z.shiftr n0 (Zpos (XO (XO (XO (XO (XO XH))))))) mASK32))

(** val be64_bytes : z -> z list **)

let be64_bytes n0 =
  app
    (be_bytes
      (Z.coq_land (Z.shiftr n0 (Zpos (XO (XO (XO (XO (XO XH))))))) mASK32))
    (be_bytes (Z.coq_land n0 mASK32))

(** val le_words : z list -> z list **)

let rec le_words = function
| [] -> []
| a :: l0 ->
  (match l0 with
   | [] -> []
   | b :: l1 ->
     (match l1 with
      | [] -> []
      | c :: l2 ->
        (match l2 with
         | [] -> []
         | d :: r -> (le32 a b c d) :: (le_words r))))

(** val be_words_rev : z list -> z list -> z list **)

let rec be_words_rev l acc =
  match l with
  | [] -> acc
  | a :: l0 ->
    (match l0 with
     | [] -> acc
     | b :: l1 ->
       (match l1 with
        | [] -> acc
        | c :: l2 ->
          (match l2 with
           | [] -> acc
           | d :: r -> be_words_rev r ((be32 a b c d) :: acc))))

type 'h hstate = { hs_h : 'h; hs_total : z; hs_plen : z; hs_pend : z list }

(** val hs_start : 'a1 -> 'a1 hstate **)

let hs_start iv =
  { hs_h = iv; hs_total = Z0; hs_plen = Z0; hs_pend = [] }

(** val hs_feed : ('a1 -> z list -> 'a1) -> 'a1 hstate -> z -> 'a1 hstate **)

let hs_feed compress s b =
  if Z.eqb s.hs_plen (Zpos (XI (XI (XI (XI (XI XH))))))
  then { hs_h = (compress s.hs_h (rev_append (b :: s.hs_pend) []));
         hs_total = (Z.add s.hs_total (Zpos XH)); hs_plen = Z0; hs_pend = [] }
  else { hs_h = s.hs_h; hs_total = (Z.add s.hs_total (Zpos XH)); hs_plen =
         (Z.add s.hs_plen (Zpos XH)); hs_pend = (b :: s.hs_pend) }

(** val hs_update :
    ('a1 -> z list -> 'a1) -> 'a1 hstate -> z list -> 'a1 hstate **)

let hs_update compress s l =
  fold_left (hs_feed compress) l s

(** val hs_nzeros : z -> nat **)

let hs_nzeros p =
  Z.to_nat
    (if Z.leb p (Zpos (XO (XO (XO (XI (XI XH))))))
     then Z.sub (Zpos (XO (XO (XO (XI (XI XH)))))) p
     else Z.sub (Zpos (XO (XO (XO (XI (XI (XI XH))))))) p)

(** val hs_finish : ('a1 -> z list -> 'a1) -> z list -> 'a1 hstate -> 'a1 **)

let hs_finish compress lenbytes s =
  let s9 = hs_feed compress s (Zpos (XO (XO (XO (XO (XO (XO (XO XH)))))))) in
  (hs_update compress
    (hs_update compress s9 (repeat Z0 (hs_nzeros s9.hs_plen))) lenbytes).hs_h

type md5_words = ((z * z) * z) * z

(** val md5_iv : md5_words **)

let md5_iv =
  ((((Zpos (XI (XO (XO (XO (XO (XO (XO (XO (XI (XI (XO (XO (XO (XI (XO (XO
    (XI (XO (XI (XO (XO (XO (XI (XO (XI (XI (XI (XO (XO (XI
    XH))))))))))))))))))))))))))))))), (Zpos (XI (XO (XO (XI (XO (XO (XO (XI
    (XI (XI (XO (XI (XO (XI (XO (XI (XI (XO (XI (XI (XO (XO (XI (XI (XI (XI
    (XI (XI (XO (XI (XI XH))))))))))))))))))))))))))))))))), (Zpos (XO (XI
    (XI (XI (XI (XI (XI (XI (XO (XO (XI (XI (XI (XO (XI (XI (XO (XI (XO (XI
    (XI (XI (XO (XI (XO (XO (XO (XI (XI (XO (XO
    XH))))))))))))))))))))))))))))))))), (Zpos (XO (XI (XI (XO (XI (XI (XI
    (XO (XO (XO (XI (XO (XI (XO (XI (XO (XO (XI (XO (XO (XI (XI (XO (XO (XO
    (XO (XO (XO XH))))))))))))))))))))))))))))))

(** val md5_F : z -> z -> z -> z **)

let md5_F x y z0 =
  Z.coq_lor (Z.coq_land x y) (Z.coq_land (not32 x) z0)

(** val md5_G : z -> z -> z -> z **)

let md5_G x y z0 =
  Z.coq_lor (Z.coq_land x z0) (Z.coq_land y (not32 z0))

(** val md5_H : z -> z -> z -> z **)

let md5_H x y z0 =
  Z.coq_lxor x (Z.coq_lxor y z0)

(** val md5_I : z -> z -> z -> z **)

let md5_I x y z0 =
  Z.coq_lxor y (Z.coq_lor x (not32 z0))

(** val md5_T1 : ((z * z) * nat) list **)

let md5_T1 =
  (((Zpos (XO (XO (XO (XI (XI (XI (XI (XO (XO (XO (XI (XO (XO (XI (XO (XI (XO
    (XI (XO (XI (XO (XI (XI (XO (XI (XI (XI (XO (XI (XO (XI
    XH)))))))))))))))))))))))))))))))), (Zpos (XI (XI XH)))), O) :: ((((Zpos
    (XO (XI (XI (XO (XI (XO (XI (XO (XI (XI (XI (XO (XI (XI (XO (XI (XI (XI
    (XI (XO (XO (XO (XI (XI (XO (XO (XO (XI (XO (XI (XI
    XH)))))))))))))))))))))))))))))))), (Zpos (XO (XO (XI XH))))), (S
    O)) :: ((((Zpos (XI (XI (XO (XI (XI (XO (XI (XI (XO (XO (XO (XO (XI (XI
    (XI (XO (XO (XO (XO (XO (XO (XI (XO (XO (XO (XO (XI (XO (XO
    XH)))))))))))))))))))))))))))))), (Zpos (XI (XO (XO (XO XH)))))), (S (S
    O))) :: ((((Zpos (XO (XI (XI (XI (XO (XI (XI (XI (XO (XI (XI (XI (XO (XO
    (XI (XI (XI (XO (XI (XI (XI (XI (XO (XI (XI (XO (XO (XO (XO (XO (XI
    XH)))))))))))))))))))))))))))))))), (Zpos (XO (XI (XI (XO XH)))))), (S (S
    (S O)))) :: ((((Zpos (XI (XI (XI (XI (XO (XI (XO (XI (XI (XI (XI (XI (XO
    (XO (XO (XO (XO (XO (XI (XI (XI (XI (XI (XO (XI (XO (XI (XO (XI (XI (XI
    XH)))))))))))))))))))))))))))))))), (Zpos (XI (XI XH)))), (S (S (S (S
    O))))) :: ((((Zpos (XO (XI (XO (XI (XO (XI (XO (XO (XO (XI (XI (XO (XO
    (XO (XI (XI (XI (XI (XI (XO (XO (XO (XO (XI (XI (XI (XI (XO (XO (XO
    XH))))))))))))))))))))))))))))))), (Zpos (XO (XO (XI XH))))), (S (S (S (S
    (S O)))))) :: ((((Zpos (XI (XI (XO (XO (XI (XO (XO (XO (XO (XI (XI (XO
    (XO (XO (XI (XO (XO (XO (XO (XO (XI (XI (XO (XO (XO (XO (XO (XI (XO (XI
    (XO XH)))))))))))))))))))))))))))))))), (Zpos (XI (XO (XO (XO XH)))))),
    (S (S (S (S (S (S O))))))) :: ((((Zpos (XI (XO (XO (XO (XO (XO (XO (XO
    (XI (XO (XI (XO (XI (XO (XO (XI (XO (XI (XI (XO (XO (XO (XI (XO (XI (XO
    (XI (XI (XI (XI (XI XH)))))))))))))))))))))))))))))))), (Zpos (XO (XI (XI
    (XO XH)))))), (S (S (S (S (S (S (S O)))))))) :: ((((Zpos (XO (XO (XO (XI
    (XI (XO (XI (XI (XO (XO (XO (XI (XI (XO (XO (XI (XO (XO (XO (XO (XO (XO
    (XO (XI (XI (XO (XO (XI (XO (XI XH))))))))))))))))))))))))))))))), (Zpos
    (XI (XI XH)))), (S (S (S (S (S (S (S (S O))))))))) :: ((((Zpos (XI (XI
    (XI (XI (XO (XI (XO (XI (XI (XI (XI (XO (XI (XI (XI (XI (XO (XO (XI (XO
    (XO (XO (XI (XO (XI (XI (XO (XI (XO (XO (XO
    XH)))))))))))))))))))))))))))))))), (Zpos (XO (XO (XI XH))))), (S (S (S
    (S (S (S (S (S (S O)))))))))) :: ((((Zpos (XI (XO (XO (XO (XI (XI (XO (XI
    (XI (XI (XO (XI (XI (XO (XI (XO (XI (XI (XI (XI (XI (XI (XI (XI (XI (XI
    (XI (XI (XI (XI (XI XH)))))))))))))))))))))))))))))))), (Zpos (XI (XO (XO
    (XO XH)))))), (S (S (S (S (S (S (S (S (S (S O))))))))))) :: ((((Zpos (XO
    (XI (XI (XI (XI (XI (XO (XI (XI (XI (XI (XO (XI (XO (XI (XI (XO (XO (XI
    (XI (XI (XO (XI (XO (XI (XO (XO (XI (XO (XO (XO
    XH)))))))))))))))))))))))))))))))), (Zpos (XO (XI (XI (XO XH)))))), (S (S
    (S (S (S (S (S (S (S (S (S O)))))))))))) :: ((((Zpos (XO (XI (XO (XO (XO
    (XI (XO (XO (XI (XO (XO (XO (XI (XO (XO (XO (XO (XO (XO (XO (XI (XO (XO
    (XI (XI (XI (XO (XI (XO (XI XH))))))))))))))))))))))))))))))), (Zpos (XI
    (XI XH)))), (S (S (S (S (S (S (S (S (S (S (S (S
    O))))))))))))) :: ((((Zpos (XI (XI (XO (XO (XI (XO (XO (XI (XI (XO (XO
    (XO (XI (XI (XI (XO (XO (XO (XO (XI (XI (XO (XO (XI (XI (XO (XI (XI (XI
    (XI (XI XH)))))))))))))))))))))))))))))))), (Zpos (XO (XO (XI XH))))), (S
    (S (S (S (S (S (S (S (S (S (S (S (S O)))))))))))))) :: ((((Zpos (XO (XI
    (XI (XI (XO (XO (XO (XI (XI (XI (XO (XO (XO (XO (XI (XO (XI (XO (XO (XI
    (XI (XI (XI (XO (XO (XI (XI (XO (XO (XI (XO
    XH)))))))))))))))))))))))))))))))), (Zpos (XI (XO (XO (XO XH)))))), (S (S
    (S (S (S (S (S (S (S (S (S (S (S (S O))))))))))))))) :: ((((Zpos (XI (XO
    (XO (XO (XO (XI (XO (XO (XO (XO (XO (XI (XO (XO (XO (XO (XO (XO (XI (XO
    (XI (XI (XO (XI (XI (XO (XO (XI (XO (XO
    XH))))))))))))))))))))))))))))))), (Zpos (XO (XI (XI (XO XH)))))), (S (S
    (S (S (S (S (S (S (S (S (S (S (S (S (S
    O)))))))))))))))) :: [])))))))))))))))

(** val md5_T2 : ((z * z) * nat) list **)

let md5_T2 =
  (((Zpos (XO (XI (XO (XO (XO (XI (XI (XO (XI (XO (XI (XO (XO (XI (XO (XO (XO
    (XI (XI (XI (XI (XO (XO (XO (XO (XI (XI (XO (XI (XI (XI
    XH)))))))))))))))))))))))))))))))), (Zpos (XI (XO XH)))), (S
    O)) :: ((((Zpos (XO (XO (XO (XO (XO (XO (XI (XO (XI (XI (XO (XO (XI (XI
    (XO (XI (XO (XO (XO (XO (XO (XO (XI (XO (XO (XO (XO (XO (XO (XO (XI
    XH)))))))))))))))))))))))))))))))), (Zpos (XI (XO (XO XH))))), (S (S (S
    (S (S (S O))))))) :: ((((Zpos (XI (XO (XO (XO (XI (XO (XI (XO (XO (XI (XO
    (XI (XI (XO (XI (XO (XO (XI (XI (XI (XI (XO (XI (XO (XO (XI (XI (XO (XO
    XH)))))))))))))))))))))))))))))), (Zpos (XO (XI (XI XH))))), (S (S (S (S
    (S (S (S (S (S (S (S O)))))))))))) :: ((((Zpos (XO (XI (XO (XI (XO (XI
    (XO (XI (XI (XI (XI (XO (XO (XO (XI (XI (XO (XI (XI (XO (XI (XI (XO (XI
    (XI (XO (XO (XI (XO (XI (XI XH)))))))))))))))))))))))))))))))), (Zpos (XO
    (XO (XI (XO XH)))))), O) :: ((((Zpos (XI (XO (XI (XI (XI (XO (XI (XO (XO
    (XO (XO (XO (XI (XO (XO (XO (XI (XI (XI (XI (XO (XI (XO (XO (XO (XI (XI
    (XO (XI (XO (XI XH)))))))))))))))))))))))))))))))), (Zpos (XI (XO XH)))),
    (S (S (S (S (S O)))))) :: ((((Zpos (XI (XI (XO (XO (XI (XO (XI (XO (XO
    (XO (XI (XO (XI (XO (XO (XO (XO (XO (XI (XO (XO (XO (XI (XO (XO
    XH)))))))))))))))))))))))))), (Zpos (XI (XO (XO XH))))), (S (S (S (S (S
    (S (S (S (S (S O))))))))))) :: ((((Zpos (XI (XO (XO (XO (XO (XO (XO (XI
    (XO (XI (XI (XO (XO (XI (XI (XI (XI (XO (XO (XO (XO (XI (XO (XI (XO (XO
    (XO (XI (XI (XO (XI XH)))))))))))))))))))))))))))))))), (Zpos (XO (XI (XI
    XH))))), (S (S (S (S (S (S (S (S (S (S (S (S (S (S (S
    O)))))))))))))))) :: ((((Zpos (XO (XO (XO (XI (XO (XO (XI (XI (XI (XI (XO
    (XI (XI (XI (XI (XI (XI (XI (XO (XO (XI (XO (XI (XI (XI (XI (XI (XO (XO
    (XI (XI XH)))))))))))))))))))))))))))))))), (Zpos (XO (XO (XI (XO
    XH)))))), (S (S (S (S O))))) :: ((((Zpos (XO (XI (XI (XO (XO (XI (XI (XI
    (XI (XO (XI (XI (XO (XO (XI (XI (XI (XO (XO (XO (XO (XI (XI (XI (XI (XO
    (XO (XO (XO XH)))))))))))))))))))))))))))))), (Zpos (XI (XO XH)))), (S (S
    (S (S (S (S (S (S (S O)))))))))) :: ((((Zpos (XO (XI (XI (XO (XI (XO (XI
    (XI (XI (XI (XI (XO (XO (XO (XO (XO (XI (XI (XI (XO (XI (XI (XO (XO (XI
    (XI (XO (XO (XO (XO (XI XH)))))))))))))))))))))))))))))))), (Zpos (XI (XO
    (XO XH))))), (S (S (S (S (S (S (S (S (S (S (S (S (S (S
    O))))))))))))))) :: ((((Zpos (XI (XI (XI (XO (XO (XO (XO (XI (XI (XO (XI
    (XI (XO (XO (XO (XO (XI (XO (XI (XO (XI (XO (XI (XI (XO (XO (XI (XO (XI
    (XI (XI XH)))))))))))))))))))))))))))))))), (Zpos (XO (XI (XI XH))))), (S
    (S (S O)))) :: ((((Zpos (XI (XO (XI (XI (XO (XI (XI (XI (XO (XO (XI (XO
    (XI (XO (XO (XO (XO (XI (XO (XI (XI (XO (XI (XO (XI (XO (XI (XO (XO (XO
    XH))))))))))))))))))))))))))))))), (Zpos (XO (XO (XI (XO XH)))))), (S (S
    (S (S (S (S (S (S O))))))))) :: ((((Zpos (XI (XO (XI (XO (XO (XO (XO (XO
    (XI (XO (XO (XI (XO (XI (XI (XI (XI (XI (XO (XO (XO (XI (XI (XI (XI (XO
    (XO (XI (XO (XI (XO XH)))))))))))))))))))))))))))))))), (Zpos (XI (XO
    XH)))), (S (S (S (S (S (S (S (S (S (S (S (S (S
    O)))))))))))))) :: ((((Zpos (XO (XO (XO (XI (XI (XI (XI (XI (XI (XI (XO
    (XO (XO (XI (XO (XI (XI (XI (XI (XI (XO (XI (XI (XI (XO (XO (XI (XI (XI
    (XI (XI XH)))))))))))))))))))))))))))))))), (Zpos (XI (XO (XO XH))))), (S
    (S O))) :: ((((Zpos (XI (XO (XO (XI (XI (XO (XI (XI (XO (XI (XO (XO (XO
    (XO (XO (XO (XI (XI (XI (XI (XO (XI (XI (XO (XI (XI (XI (XO (XO (XI
    XH))))))))))))))))))))))))))))))), (Zpos (XO (XI (XI XH))))), (S (S (S (S
    (S (S (S O)))))))) :: ((((Zpos (XO (XI (XO (XI (XO (XO (XO (XI (XO (XO
    (XI (XI (XO (XO (XI (XO (XO (XI (XO (XI (XO (XI (XO (XO (XI (XO (XI (XI
    (XO (XO (XO XH)))))))))))))))))))))))))))))))), (Zpos (XO (XO (XI (XO
    XH)))))), (S (S (S (S (S (S (S (S (S (S (S (S
    O))))))))))))) :: [])))))))))))))))

(** val md5_T3 : ((z * z) * nat) list **)

let md5_T3 =
  (((Zpos (XO (XI (XO (XO (XO (XO (XI (XO (XI (XO (XO (XI (XI (XI (XO (XO (XO
    (XI (XO (XI (XI (XI (XI (XI (XI (XI (XI (XI (XI (XI (XI
    XH)))))))))))))))))))))))))))))))), (Zpos (XO (XO XH)))), (S (S (S (S (S
    O)))))) :: ((((Zpos (XI (XO (XO (XO (XO (XO (XO (XI (XO (XI (XI (XO (XI
    (XI (XI (XI (XI (XO (XO (XO (XI (XI (XI (XO (XI (XI (XI (XO (XO (XO (XO
    XH)))))))))))))))))))))))))))))))), (Zpos (XI (XI (XO XH))))), (S (S (S
    (S (S (S (S (S O))))))))) :: ((((Zpos (XO (XI (XO (XO (XO (XI (XO (XO (XI
    (XO (XO (XO (XO (XI (XI (XO (XI (XO (XI (XI (XI (XO (XO (XI (XI (XO (XI
    (XI (XO (XI XH))))))))))))))))))))))))))))))), (Zpos (XO (XO (XO (XO
    XH)))))), (S (S (S (S (S (S (S (S (S (S (S O)))))))))))) :: ((((Zpos (XO
    (XO (XI (XI (XO (XO (XO (XO (XO (XO (XO (XI (XI (XI (XO (XO (XI (XO (XI
    (XO (XO (XI (XI (XI (XI (XO (XI (XI (XI (XI (XI
    XH)))))))))))))))))))))))))))))))), (Zpos (XI (XI (XI (XO XH)))))), (S (S
    (S (S (S (S (S (S (S (S (S (S (S (S O))))))))))))))) :: ((((Zpos (XO (XO
    (XI (XO (XO (XO (XI (XO (XO (XI (XO (XI (XO (XI (XI (XI (XO (XI (XI (XI
    (XI (XI (XO (XI (XO (XO (XI (XO (XO (XI (XO
    XH)))))))))))))))))))))))))))))))), (Zpos (XO (XO XH)))), (S
    O)) :: ((((Zpos (XI (XO (XO (XI (XO (XI (XO (XI (XI (XI (XI (XI (XO (XO
    (XI (XI (XO (XI (XI (XI (XI (XO (XI (XI (XI (XI (XO (XI (XO (XO
    XH))))))))))))))))))))))))))))))), (Zpos (XI (XI (XO XH))))), (S (S (S (S
    O))))) :: ((((Zpos (XO (XO (XO (XO (XO (XI (XI (XO (XI (XI (XO (XI (XO
    (XO (XI (XO (XI (XI (XO (XI (XI (XI (XO (XI (XO (XI (XI (XO (XI (XI (XI
    XH)))))))))))))))))))))))))))))))), (Zpos (XO (XO (XO (XO XH)))))), (S (S
    (S (S (S (S (S O)))))))) :: ((((Zpos (XO (XO (XO (XO (XI (XI (XI (XO (XO
    (XO (XI (XI (XI (XI (XO (XI (XI (XI (XI (XI (XI (XI (XO (XI (XO (XI (XI
    (XI (XI (XI (XO XH)))))))))))))))))))))))))))))))), (Zpos (XI (XI (XI (XO
    XH)))))), (S (S (S (S (S (S (S (S (S (S O))))))))))) :: ((((Zpos (XO (XI
    (XI (XO (XO (XO (XI (XI (XO (XI (XI (XI (XI (XI (XI (XO (XI (XI (XO (XI
    (XI (XO (XO (XI (XO (XO (XO (XI (XO XH)))))))))))))))))))))))))))))),
    (Zpos (XO (XO XH)))), (S (S (S (S (S (S (S (S (S (S (S (S (S
    O)))))))))))))) :: ((((Zpos (XO (XI (XO (XI (XI (XI (XI (XI (XI (XI (XI
    (XO (XO (XI (XO (XO (XI (XO (XO (XO (XO (XI (XO (XI (XO (XI (XO (XI (XO
    (XI (XI XH)))))))))))))))))))))))))))))))), (Zpos (XI (XI (XO XH))))),
    O) :: ((((Zpos (XI (XO (XI (XO (XO (XO (XO (XI (XO (XO (XO (XO (XI (XI
    (XO (XO (XI (XI (XI (XI (XO (XI (XI (XI (XO (XO (XI (XO (XI (XO (XI
    XH)))))))))))))))))))))))))))))))), (Zpos (XO (XO (XO (XO XH)))))), (S (S
    (S O)))) :: ((((Zpos (XI (XO (XI (XO (XO (XO (XO (XO (XI (XO (XI (XI (XI
    (XO (XO (XO (XO (XO (XO (XI (XO (XO (XO (XI (XO (XO
    XH))))))))))))))))))))))))))), (Zpos (XI (XI (XI (XO XH)))))), (S (S (S
    (S (S (S O))))))) :: ((((Zpos (XI (XO (XO (XI (XI (XI (XO (XO (XO (XO (XO
    (XO (XI (XO (XI (XI (XO (XO (XI (XO (XI (XO (XI (XI (XI (XO (XO (XI (XI
    (XO (XI XH)))))))))))))))))))))))))))))))), (Zpos (XO (XO XH)))), (S (S
    (S (S (S (S (S (S (S O)))))))))) :: ((((Zpos (XI (XO (XI (XO (XO (XI (XI
    (XI (XI (XO (XO (XI (XI (XO (XO (XI (XI (XI (XO (XI (XI (XO (XI (XI (XO
    (XI (XI (XO (XO (XI (XI XH)))))))))))))))))))))))))))))))), (Zpos (XI (XI
    (XO XH))))), (S (S (S (S (S (S (S (S (S (S (S (S
    O))))))))))))) :: ((((Zpos (XO (XO (XO (XI (XI (XI (XI (XI (XO (XO (XI
    (XI (XI (XI (XI (XO (XO (XI (XO (XO (XO (XI (XO (XI (XI (XI (XI (XI
    XH))))))))))))))))))))))))))))), (Zpos (XO (XO (XO (XO XH)))))), (S (S (S
    (S (S (S (S (S (S (S (S (S (S (S (S O)))))))))))))))) :: ((((Zpos (XI (XO
    (XI (XO (XO (XI (XI (XO (XO (XI (XI (XO (XI (XO (XI (XO (XO (XO (XI (XI
    (XO (XI (XO (XI (XO (XO (XI (XO (XO (XO (XI
    XH)))))))))))))))))))))))))))))))), (Zpos (XI (XI (XI (XO XH)))))), (S (S
    O))) :: [])))))))))))))))

(** val md5_T4 : ((z * z) * nat) list **)

let md5_T4 =
  (((Zpos (XO (XO (XI (XO (XO (XO (XI (XO (XO (XI (XO (XO (XO (XI (XO (XO (XI
    (XO (XO (XI (XO (XI (XO (XO (XO (XO (XI (XO (XI (XI (XI
    XH)))))))))))))))))))))))))))))))), (Zpos (XO (XI XH)))), O) :: ((((Zpos
    (XI (XI (XI (XO (XI (XO (XO (XI (XI (XI (XI (XI (XI (XI (XI (XI (XO (XI
    (XO (XI (XO (XI (XO (XO (XI (XI (XO (XO (XO (XO
    XH))))))))))))))))))))))))))))))), (Zpos (XO (XI (XO XH))))), (S (S (S (S
    (S (S (S O)))))))) :: ((((Zpos (XI (XI (XI (XO (XO (XI (XO (XI (XI (XI
    (XO (XO (XO (XI (XO (XO (XO (XO (XI (XO (XI (XO (XO (XI (XI (XI (XO (XI
    (XO (XI (XO XH)))))))))))))))))))))))))))))))), (Zpos (XI (XI (XI
    XH))))), (S (S (S (S (S (S (S (S (S (S (S (S (S (S
    O))))))))))))))) :: ((((Zpos (XI (XO (XO (XI (XI (XI (XO (XO (XO (XO (XO
    (XO (XO (XI (XO (XI (XI (XI (XO (XO (XI (XO (XO (XI (XO (XO (XI (XI (XI
    (XI (XI XH)))))))))))))))))))))))))))))))), (Zpos (XI (XO (XI (XO
    XH)))))), (S (S (S (S (S O)))))) :: ((((Zpos (XI (XI (XO (XO (XO (XO (XI
    (XI (XI (XO (XO (XI (XI (XO (XI (XO (XI (XI (XO (XI (XI (XO (XI (XO (XI
    (XO (XI (XO (XO (XI XH))))))))))))))))))))))))))))))), (Zpos (XO (XI
    XH)))), (S (S (S (S (S (S (S (S (S (S (S (S O))))))))))))) :: ((((Zpos
    (XO (XI (XO (XO (XI (XO (XO (XI (XO (XO (XI (XI (XO (XO (XI (XI (XO (XO
    (XI (XI (XO (XO (XO (XO (XI (XI (XI (XI (XO (XO (XO
    XH)))))))))))))))))))))))))))))))), (Zpos (XO (XI (XO XH))))), (S (S (S
    O)))) :: ((((Zpos (XI (XO (XI (XI (XI (XI (XI (XO (XO (XO (XI (XO (XI (XI
    (XI (XI (XI (XI (XI (XI (XO (XI (XI (XI (XI (XI (XI (XI (XI (XI (XI
    XH)))))))))))))))))))))))))))))))), (Zpos (XI (XI (XI XH))))), (S (S (S
    (S (S (S (S (S (S (S O))))))))))) :: ((((Zpos (XI (XO (XO (XO (XI (XO (XI
    (XI (XI (XO (XI (XI (XI (XO (XI (XO (XO (XO (XI (XO (XO (XO (XO (XI (XI
    (XO (XI (XO (XO (XO (XO XH)))))))))))))))))))))))))))))))), (Zpos (XI (XO
    (XI (XO XH)))))), (S O)) :: ((((Zpos (XI (XI (XI (XI (XO (XO (XI (XO (XO
    (XI (XI (XI (XI (XI (XI (XO (XO (XO (XO (XI (XO (XI (XO (XI (XI (XI (XI
    (XI (XO (XI XH))))))))))))))))))))))))))))))), (Zpos (XO (XI XH)))), (S
    (S (S (S (S (S (S (S O))))))))) :: ((((Zpos (XO (XO (XO (XO (XO (XI (XI
    (XI (XO (XI (XI (XO (XO (XI (XI (XI (XO (XO (XI (XI (XO (XI (XO (XO (XO
    (XI (XI (XI (XI (XI (XI XH)))))))))))))))))))))))))))))))), (Zpos (XO (XI
    (XO XH))))), (S (S (S (S (S (S (S (S (S (S (S (S (S (S (S
    O)))))))))))))))) :: ((((Zpos (XO (XO (XI (XO (XI (XO (XO (XO (XI (XI (XO
    (XO (XO (XO (XI (XO (XI (XO (XO (XO (XO (XO (XO (XO (XI (XI (XO (XO (XO
    (XI (XO XH)))))))))))))))))))))))))))))))), (Zpos (XI (XI (XI XH))))), (S
    (S (S (S (S (S O))))))) :: ((((Zpos (XI (XO (XO (XO (XO (XI (XO (XI (XI
    (XO (XO (XO (XI (XO (XO (XO (XO (XO (XO (XI (XO (XO (XO (XO (XO (XI (XI
    (XI (XO (XO XH))))))))))))))))))))))))))))))), (Zpos (XI (XO (XI (XO
    XH)))))), (S (S (S (S (S (S (S (S (S (S (S (S (S
    O)))))))))))))) :: ((((Zpos (XO (XI (XO (XO (XO (XO (XO (XI (XO (XI (XI
    (XI (XI (XI (XI (XO (XI (XI (XO (XO (XI (XO (XI (XO (XI (XI (XI (XO (XI
    (XI (XI XH)))))))))))))))))))))))))))))))), (Zpos (XO (XI XH)))), (S (S
    (S (S O))))) :: ((((Zpos (XI (XO (XI (XO (XI (XI (XO (XO (XO (XI (XO (XO
    (XI (XI (XI (XI (XO (XI (XO (XI (XI (XI (XO (XO (XI (XO (XI (XI (XI (XI
    (XO XH)))))))))))))))))))))))))))))))), (Zpos (XO (XI (XO XH))))), (S (S
    (S (S (S (S (S (S (S (S (S O)))))))))))) :: ((((Zpos (XI (XI (XO (XI (XI
    (XI (XO (XI (XO (XI (XO (XO (XI (XO (XI (XI (XI (XI (XI (XO (XI (XO (XI
    (XI (XO (XI (XO (XI (XO XH)))))))))))))))))))))))))))))), (Zpos (XI (XI
    (XI XH))))), (S (S O))) :: ((((Zpos (XI (XO (XO (XO (XI (XO (XO (XI (XI
    (XI (XO (XO (XI (XO (XI (XI (XO (XI (XI (XO (XO (XO (XO (XI (XI (XI (XO
    (XI (XO (XI (XI XH)))))))))))))))))))))))))))))))), (Zpos (XI (XO (XI (XO
    XH)))))), (S (S (S (S (S (S (S (S (S O)))))))))) :: [])))))))))))))))

(** val md5_step :
    (z -> z -> z -> z) -> z list -> md5_words -> ((z * z) * nat) -> md5_words **)

let md5_step f x st e =
  let (p, d) = st in
  let (p0, c) = p in
  let (a, b) = p0 in
  let (p1, k) = e in
  let (t, s) = p1 in
  let v = Z.coq_land (Z.add (Z.add (Z.add a (f b c d)) (nth k x Z0)) t) mASK32
  in
  (((d, (Z.coq_land (Z.add b (rotl32 v s)) mASK32)), b), c)

(** val md5_compress : md5_words -> z list -> md5_words **)

let md5_compress h block =
  let x = le_words block in
  let s9 = fold_left (md5_step md5_F x) md5_T1 h in
  let s10 = fold_left (md5_step md5_G x) md5_T2 s9 in
  let s11 = fold_left (md5_step md5_H x) md5_T3 s10 in
  let s12 = fold_left (md5_step md5_I x) md5_T4 s11 in
  let (p, d0) = h in
  let (p0, c0) = p in
  let (a0, b0) = p0 in
  let (p1, d) = s12 in
  let (p2, c) = p1 in
  let (a, b) = p2 in
  ((((add32 a0 a), (add32 b0 b)), (add32 c0 c)), (add32 d0 d))

type md5_state = md5_words hstate

(** val md5_init : md5_state **)

let md5_init =
  hs_start md5_iv

(** val md5_update : md5_state -> z list -> md5_state **)

let md5_update =
  hs_update md5_compress

(** val md5_final : md5_state -> z list **)

let md5_final s =
  let (p, d) =
    hs_finish md5_compress
      (le64_bytes (Z.mul (Zpos (XO (XO (XO XH)))) s.hs_total)) s
  in
  let (p0, c) = p in
  let (a, b) = p0 in
  app (le_bytes a) (app (le_bytes b) (app (le_bytes c) (le_bytes d)))

(** val md5 : z list -> z list **)

let md5 l =
  md5_final (md5_update md5_init l)

type sha1_words = (((z * z) * z) * z) * z

(** val sha1_iv : sha1_words **)

let sha1_iv =
  (((((Zpos (XI (XO (XO (XO (XO (XO (XO (XO (XI (XI (XO (XO (XO (XI (XO (XO
    (XI (XO (XI (XO (XO (XO (XI (XO (XI (XI (XI (XO (XO (XI
    XH))))))))))))))))))))))))))))))), (Zpos (XI (XO (XO (XI (XO (XO (XO (XI
    (XI (XI (XO (XI (XO (XI (XO (XI (XI (XO (XI (XI (XO (XO (XI (XI (XI (XI
    (XI (XI (XO (XI (XI XH))))))))))))))))))))))))))))))))), (Zpos (XO (XI
    (XI (XI (XI (XI (XI (XI (XO (XO (XI (XI (XI (XO (XI (XI (XO (XI (XO (XI
    (XI (XI (XO (XI (XO (XO (XO (XI (XI (XO (XO
    XH))))))))))))))))))))))))))))))))), (Zpos (XO (XI (XI (XO (XI (XI (XI
    (XO (XO (XO (XI (XO (XI (XO (XI (XO (XO (XI (XO (XO (XI (XI (XO (XO (XO
    (XO (XO (XO XH)))))))))))))))))))))))))))))), (Zpos (XO (XO (XO (XO (XI
    (XI (XI (XI (XI (XO (XO (XO (XO (XI (XI (XI (XO (XI (XO (XO (XI (XO (XI
    (XI (XI (XI (XO (XO (XO (XO (XI XH)))))))))))))))))))))))))))))))))

(** val sha1_Ch : z -> z -> z -> z **)

let sha1_Ch x y z0 =
  Z.coq_lxor (Z.coq_land x y) (Z.coq_land (not32 x) z0)

(** val sha1_Parity : z -> z -> z -> z **)

let sha1_Parity x y z0 =
  Z.coq_lxor x (Z.coq_lxor y z0)

(** val sha1_Maj : z -> z -> z -> z **)

let sha1_Maj x y z0 =
  Z.coq_lxor (Z.coq_land x y) (Z.coq_lxor (Z.coq_land x z0) (Z.coq_land y z0))

(** val sha1_rotl1 : z -> z **)

let sha1_rotl1 x =
  rotl32_split x (Zpos XH) (Zpos (XI (XI (XI (XI XH))))) (Zpos (XI (XI (XI
    (XI (XI (XI (XI (XI (XI (XI (XI (XI (XI (XI (XI (XI (XI (XI (XI (XI (XI
    (XI (XI (XI (XI (XI (XI (XI (XI (XI XH)))))))))))))))))))))))))))))))

(** val sha1_rotl5 : z -> z **)

let sha1_rotl5 x =
  rotl32_split x (Zpos (XI (XO XH))) (Zpos (XI (XI (XO (XI XH))))) (Zpos (XI
    (XI (XI (XI (XI (XI (XI (XI (XI (XI (XI (XI (XI (XI (XI (XI (XI (XI (XI
    (XI (XI (XI (XI (XI (XI (XI XH)))))))))))))))))))))))))))

(** val sha1_rotl30 : z -> z **)

let sha1_rotl30 x =
  rotl32_split x (Zpos (XO (XI (XI (XI XH))))) (Zpos (XO XH)) (Zpos (XI XH))

(** val sha1_next_w : z list -> z **)

let sha1_next_w = function
| [] -> Z0
| _ :: l ->
  (match l with
   | [] -> Z0
   | _ :: l0 ->
     (match l0 with
      | [] -> Z0
      | w3 :: l1 ->
        (match l1 with
         | [] -> Z0
         | _ :: l2 ->
           (match l2 with
            | [] -> Z0
            | _ :: l3 ->
              (match l3 with
               | [] -> Z0
               | _ :: l4 ->
                 (match l4 with
                  | [] -> Z0
                  | _ :: l5 ->
                    (match l5 with
                     | [] -> Z0
                     | w8 :: l6 ->
                       (match l6 with
                        | [] -> Z0
                        | _ :: l7 ->
                          (match l7 with
                           | [] -> Z0
                           | _ :: l8 ->
                             (match l8 with
                              | [] -> Z0
                              | _ :: l9 ->
                                (match l9 with
                                 | [] -> Z0
                                 | _ :: l10 ->
                                   (match l10 with
                                    | [] -> Z0
                                    | _ :: l11 ->
                                      (match l11 with
                                       | [] -> Z0
                                       | w14 :: l12 ->
                                         (match l12 with
                                          | [] -> Z0
                                          | _ :: l13 ->
                                            (match l13 with
                                             | [] -> Z0
                                             | w16 :: _ ->
                                               sha1_rotl1
                                                 (Z.coq_lxor w3
                                                   (Z.coq_lxor w8
                                                     (Z.coq_lxor w14 w16))))))))))))))))))

(** val sha1_expand : nat -> z list -> z list **)

let rec sha1_expand n0 acc =
  match n0 with
  | O -> acc
  | S n' -> sha1_expand n' ((sha1_next_w acc) :: acc)

(** val sha1_schedule : z list -> z list **)

let sha1_schedule block =
  rev_append
    (sha1_expand (S (S (S (S (S (S (S (S (S (S (S (S (S (S (S (S (S (S (S (S
      (S (S (S (S (S (S (S (S (S (S (S (S (S (S (S (S (S (S (S (S (S (S (S (S
      (S (S (S (S (S (S (S (S (S (S (S (S (S (S (S (S (S (S (S (S
      O))))))))))))))))))))))))))))))))))))))))))))))))))))))))))))))))
      (be_words_rev block [])) []

(** val sha1_round :
    (z -> z -> z -> z) -> z -> sha1_words -> z -> sha1_words **)

let sha1_round f k st w =
  let (p, e) = st in
  let (p0, d) = p in
  let (p1, c) = p0 in
  let (a, b) = p1 in
  (((((Z.coq_land
        (Z.add (Z.add (Z.add (Z.add (sha1_rotl5 a) (f b c d)) e) k) w) mASK32),
  a), (sha1_rotl30 b)), c), d)

(** val sha1_rounds :
    nat -> (z -> z -> z -> z) -> z -> sha1_words -> z list -> sha1_words * z
    list **)

let rec sha1_rounds n0 f k st ws =
  match n0 with
  | O -> (st, ws)
  | S n' ->
    (match ws with
     | [] -> (st, ws)
     | w :: r -> sha1_rounds n' f k (sha1_round f k st w) r)

(** val sha1_compress : sha1_words -> z list -> sha1_words **)

let sha1_compress h block =
  let w = sha1_schedule block in
  let (s9, w1) =
    sha1_rounds (S (S (S (S (S (S (S (S (S (S (S (S (S (S (S (S (S (S (S (S
      O)))))))))))))))))))) sha1_Ch (Zpos (XI (XO (XO (XI (XI (XO (XO (XI (XI
      (XO (XO (XI (XI (XI (XI (XO (XO (XI (XO (XO (XO (XO (XO (XI (XO (XI (XO
      (XI (XI (XO XH))))))))))))))))))))))))))))))) h w
  in
  let (s10, w2) =
    sha1_rounds (S (S (S (S (S (S (S (S (S (S (S (S (S (S (S (S (S (S (S (S
      O)))))))))))))))))))) sha1_Parity (Zpos (XI (XO (XO (XO (XO (XI (XO (XI
      (XI (XI (XO (XI (XO (XI (XI (XI (XI (XO (XO (XI (XI (XO (XI (XI (XO (XI
      (XI (XI (XO (XI XH))))))))))))))))))))))))))))))) s9 w1
  in
  let (s11, w3) =
    sha1_rounds (S (S (S (S (S (S (S (S (S (S (S (S (S (S (S (S (S (S (S (S
      O)))))))))))))))))))) sha1_Maj (Zpos (XO (XO (XI (XI (XI (XO (XI (XI
      (XO (XO (XI (XI (XI (XI (XO (XI (XI (XI (XO (XI (XI (XO (XO (XO (XI (XI
      (XI (XI (XO (XO (XO XH)))))))))))))))))))))))))))))))) s10 w2
  in
  let (s12, _) =
    sha1_rounds (S (S (S (S (S (S (S (S (S (S (S (S (S (S (S (S (S (S (S (S
      O)))))))))))))))))))) sha1_Parity (Zpos (XO (XI (XI (XO (XI (XO (XI (XI
      (XI (XO (XO (XO (XO (XO (XI (XI (XO (XI (XO (XO (XO (XI (XI (XO (XO (XI
      (XO (XI (XO (XO (XI XH)))))))))))))))))))))))))))))))) s11 w3
  in
  let (p, e0) = h in
  let (p0, d0) = p in
  let (p1, c0) = p0 in
  let (a0, b0) = p1 in
  let (p2, e) = s12 in
  let (p3, d) = p2 in
  let (p4, c) = p3 in
  let (a, b) = p4 in
  (((((add32 a0 a), (add32 b0 b)), (add32 c0 c)), (add32 d0 d)), (add32 e0 e))

type sha1_state = sha1_words hstate

(** val sha1_init : sha1_state **)

let sha1_init =
  hs_start sha1_iv

(** val sha1_update : sha1_state -> z list -> sha1_state **)

let sha1_update =
  hs_update sha1_compress

(** val sha1_final : sha1_state -> z list **)

let sha1_final s =
  let (p, e) =
    hs_finish sha1_compress
      (be64_bytes (Z.mul (Zpos (XO (XO (XO XH)))) s.hs_total)) s
  in
  let (p0, d) = p in
  let (p1, c) = p0 in
  let (a, b) = p1 in
  app (be_bytes a)
    (app (be_bytes b) (app (be_bytes c) (app (be_bytes d) (be_bytes e))))

(** val sha1 : z list -> z list **)

let sha1 l =
  sha1_final (sha1_update sha1_init l)

(** val password_to_master :
    'a1 -> ('a1 -> bytes -> 'a1) -> ('a1 -> bytes) -> z -> bytes -> bytes res **)

let password_to_master init update final kS pw =
  if Z.eqb (len pw) Z0
  then Panic
  else let n0 = Z.div mEGABYTE (len pw) in
       let rem = Z.modulo mEGABYTE (len pw) in
       let st = Z.iter n0 (fun s -> update s pw) init in
       let st0 = if Z.ltb Z0 rem then update st (takez rem pw) else st in
       slice_to (final st0) kS

(** val localize :
    'a1 -> ('a1 -> bytes -> 'a1) -> ('a1 -> bytes) -> z -> bytes -> bytes ->
    bytes res **)

let localize init update final kS key locality =
  slice_to (final (update (update (update init key) locality) key)) kS

(** val xor_const : z -> bytes -> bytes **)

let xor_const c l =
  map (fun x -> Z.coq_lxor x c) l

(** val const_bytes : nat -> z -> bytes **)

let rec const_bytes n0 c =
  match n0 with
  | O -> []
  | S k -> c :: (const_bytes k c)

(** val sign :
    'a1 -> ('a1 -> bytes -> 'a1) -> ('a1 -> bytes) -> z -> z -> bytes ->
    bytes -> z -> bytes res **)

let sign init update final kS sS key data0 offset =
  let rest_len = Z.to_nat (Z.sub pADDED_LENGTH kS) in
  let d1 =
    final
      (update
        (update (update init (xor_const iPAD_VALUE key))
          (const_bytes rest_len iPAD_VALUE)) data0)
  in
  bind (slice_to d1 kS) (fun d1k ->
    let d2 =
      final
        (update
          (update (update init (xor_const oPAD_VALUE key))
            (const_bytes rest_len oPAD_VALUE)) d1k)
    in
    bind (slice_to d2 sS) (fun mac ->
      if (||) (Z.ltb offset Z0) (Z.ltb (len data0) (Z.add offset sS))
      then Panic
      else Ok
             (app (takez offset data0)
               (app mac (dropz (Z.add offset sS) data0)))))

type auth_alg =
| ANoAuth
| AMd5
| ASha1

type auth_key = { ak_alg : auth_alg; ak_key : bytes }

(** val auth_new : z -> auth_key res **)

let auth_new code =
  let a = Z.coq_land code kT_ALG_MASK in
  if Z.eqb a nO_AUTH
  then Ok { ak_alg = ANoAuth; ak_key = [] }
  else if Z.eqb a mD5_AUTH
       then Ok { ak_alg = AMd5; ak_key =
              (const_bytes (Z.to_nat mD5_KEY_SIZE) Z0) }
       else if Z.eqb a sHA1_AUTH
            then Ok { ak_alg = ASha1; ak_key =
                   (const_bytes (Z.to_nat sHA1_KEY_SIZE) Z0) }
            else Err InvalidVersion

(** val key_size : auth_alg -> z **)

let key_size = function
| ANoAuth -> Z0
| AMd5 -> mD5_KEY_SIZE
| ASha1 -> sHA1_KEY_SIZE

(** val has_auth : auth_alg -> bool **)

let has_auth = function
| ANoAuth -> false
| _ -> true

(** val sign_size : auth_alg -> z **)

let sign_size = function
| ANoAuth -> Z0
| AMd5 -> mD5_SIGN_SIZE
| ASha1 -> sHA1_SIGN_SIZE

(** val placeholder : auth_alg -> bytes **)

let placeholder a =
  const_bytes (Z.to_nat (sign_size a)) Z0

(** val md5_p2m : bytes -> bytes res **)

let md5_p2m =
  password_to_master md5_init md5_update md5_final mD5_KEY_SIZE

(** val sha1_p2m : bytes -> bytes res **)

let sha1_p2m =
  password_to_master sha1_init sha1_update sha1_final sHA1_KEY_SIZE

(** val md5_localize : bytes -> bytes -> bytes res **)

let md5_localize =
  localize md5_init md5_update md5_final mD5_KEY_SIZE

(** val sha1_localize : bytes -> bytes -> bytes res **)

let sha1_localize =
  localize sha1_init sha1_update sha1_final sHA1_KEY_SIZE

(** val alg_p2m : auth_alg -> bytes -> bytes res **)

let alg_p2m a pw =
  match a with
  | ANoAuth -> Ok []
  | AMd5 -> md5_p2m pw
  | ASha1 -> sha1_p2m pw

(** val alg_localize : auth_alg -> bytes -> bytes -> bytes res **)

let alg_localize a key loc =
  match a with
  | ANoAuth -> Ok []
  | AMd5 -> md5_localize key loc
  | ASha1 -> sha1_localize key loc

(** val as_key_type : auth_key -> z -> bytes -> bytes -> auth_key res **)

let as_key_type k alg key engine_id0 =
  let a = k.ak_alg in
  if negb (has_auth a)
  then Ok k
  else let t = Z.coq_land alg kT_TYPE_MASK in
       let ks = key_size a in
       if (&&) (Z.eqb t kT_PASSWORD) (negb (Z.eqb (len key) Z0))
       then bind (alg_p2m a key) (fun m ->
              bind (alg_localize a m engine_id0) (fun l ->
                if Z.eqb (len l) ks
                then Ok { ak_alg = a; ak_key = l }
                else Panic))
       else if (&&) (Z.eqb t kT_MASTER) (Z.eqb (len key) ks)
            then bind (alg_localize a key engine_id0) (fun l ->
                   if Z.eqb (len l) ks
                   then Ok { ak_alg = a; ak_key = l }
                   else Panic)
            else if (&&) (Z.eqb t kT_LOCALIZED) (Z.eqb (len key) ks)
                 then Ok { ak_alg = a; ak_key = key }
                 else Err InvalidKey

(** val alg_sign : auth_key -> bytes -> z -> bytes res **)

let alg_sign k data0 offset =
  match k.ak_alg with
  | ANoAuth -> Ok data0
  | AMd5 ->
    sign md5_init md5_update md5_final mD5_KEY_SIZE mD5_SIGN_SIZE k.ak_key
      data0 offset
  | ASha1 ->
    sign sha1_init sha1_update sha1_final sHA1_KEY_SIZE sHA1_SIGN_SIZE
      k.ak_key data0 offset

type 'a pyres =
| PyOk of 'a
| PyValueError
| PyDecodeError
| PyPanic

(** val get_master_key : z -> bytes -> bytes pyres **)

let get_master_key alg pw =
  match auth_new alg with
  | Ok k ->
    if Z.eqb (len pw) Z0
    then PyValueError
    else (match alg_p2m k.ak_alg pw with
          | Ok m -> PyOk m
          | Err _ -> PyValueError
          | Panic -> PyPanic)
  | Err _ -> PyDecodeError
  | Panic -> PyPanic

(** val get_localized_key : z -> bytes -> bytes -> bytes pyres **)

let get_localized_key alg master engine_id0 =
  match auth_new alg with
  | Ok k ->
    if negb (Z.eqb (len master) (key_size k.ak_alg))
    then PyValueError
    else (match alg_localize k.ak_alg master engine_id0 with
          | Ok m -> PyOk m
          | Err _ -> PyValueError
          | Panic -> PyPanic)
  | Err _ -> PyDecodeError
  | Panic -> PyPanic

(** val byte_to_bits : z -> bool list **)

let byte_to_bits x =
  (Z.testbit x (Zpos (XI (XI XH)))) :: ((Z.testbit x (Zpos (XO (XI XH)))) :: (
    (Z.testbit x (Zpos (XI (XO XH)))) :: ((Z.testbit x (Zpos (XO (XO XH)))) :: (
    (Z.testbit x (Zpos (XI XH))) :: ((Z.testbit x (Zpos (XO XH))) :: (
    (Z.testbit x (Zpos XH)) :: ((Z.testbit x Z0) :: [])))))))

(** val bytes_to_bits : z list -> bool list **)

let bytes_to_bits l =
  flat_map byte_to_bits l

(** val b2z : bool -> z -> z **)

let b2z b w =
  if b then w else Z0

(** val bits_to_byte :
    bool -> bool -> bool -> bool -> bool -> bool -> bool -> bool -> z **)

let bits_to_byte b7 b6 b5 b4 b3 b2 b1 b0 =
  Z.add
    (Z.add
      (Z.add
        (Z.add
          (Z.add
            (Z.add
              (Z.add (b2z b7 (Zpos (XO (XO (XO (XO (XO (XO (XO XH)))))))))
                (b2z b6 (Zpos (XO (XO (XO (XO (XO (XO XH)))))))))
              (b2z b5 (Zpos (XO (XO (XO (XO (XO XH))))))))
            (b2z b4 (Zpos (XO (XO (XO (XO XH)))))))
          (b2z b3 (Zpos (XO (XO (XO XH)))))) (b2z b2 (Zpos (XO (XO XH)))))
      (b2z b1 (Zpos (XO XH)))) (b2z b0 (Zpos XH))

(** val bits_to_bytes : bool list -> z list **)

let rec bits_to_bytes = function
| [] -> []
| b7 :: l0 ->
  (match l0 with
   | [] -> []
   | b6 :: l1 ->
     (match l1 with
      | [] -> []
      | b5 :: l2 ->
        (match l2 with
         | [] -> []
         | b4 :: l3 ->
           (match l3 with
            | [] -> []
            | b3 :: l4 ->
              (match l4 with
               | [] -> []
               | b2 :: l5 ->
                 (match l5 with
                  | [] -> []
                  | b1 :: l6 ->
                    (match l6 with
                     | [] -> []
                     | b0 :: rest ->
                       (bits_to_byte b7 b6 b5 b4 b3 b2 b1 b0) :: (bits_to_bytes
                                                                   rest))))))))

(** val xor_bits : bool list -> bool list -> bool list **)

let rec xor_bits l x =
  match l with
  | [] -> l
  | a :: l' ->
    (match x with
     | [] -> l
     | b :: x' -> (xorb a b) :: (xor_bits l' x'))

(** val permute : nat list -> bool list -> bool list **)

let permute tbl bits =
  map (fun i -> nth (Nat.pred i) bits false) tbl

(** val rotl1 : bool list -> bool list **)

let rotl1 = function
| [] -> []
| x :: t -> app t (x :: [])

(** val rotl : nat -> bool list -> bool list **)

let rec rotl n0 l =
  match n0 with
  | O -> l
  | S n' -> rotl n' (rotl1 l)

(** val iP_tbl : nat list **)

let iP_tbl =
  (S (S (S (S (S (S (S (S (S (S (S (S (S (S (S (S (S (S (S (S (S (S (S (S (S
    (S (S (S (S (S (S (S (S (S (S (S (S (S (S (S (S (S (S (S (S (S (S (S (S
    (S (S (S (S (S (S (S (S (S
    O)))))))))))))))))))))))))))))))))))))))))))))))))))))))))) :: ((S (S (S
    (S (S (S (S (S (S (S (S (S (S (S (S (S (S (S (S (S (S (S (S (S (S (S (S
    (S (S (S (S (S (S (S (S (S (S (S (S (S (S (S (S (S (S (S (S (S (S (S
    O)))))))))))))))))))))))))))))))))))))))))))))))))) :: ((S (S (S (S (S (S
    (S (S (S (S (S (S (S (S (S (S (S (S (S (S (S (S (S (S (S (S (S (S (S (S
    (S (S (S (S (S (S (S (S (S (S (S (S
    O)))))))))))))))))))))))))))))))))))))))))) :: ((S (S (S (S (S (S (S (S
    (S (S (S (S (S (S (S (S (S (S (S (S (S (S (S (S (S (S (S (S (S (S (S (S
    (S (S O)))))))))))))))))))))))))))))))))) :: ((S (S (S (S (S (S (S (S (S
    (S (S (S (S (S (S (S (S (S (S (S (S (S (S (S (S (S
    O)))))))))))))))))))))))))) :: ((S (S (S (S (S (S (S (S (S (S (S (S (S (S
    (S (S (S (S O)))))))))))))))))) :: ((S (S (S (S (S (S (S (S (S (S
    O)))))))))) :: ((S (S O)) :: ((S (S (S (S (S (S (S (S (S (S (S (S (S (S
    (S (S (S (S (S (S (S (S (S (S (S (S (S (S (S (S (S (S (S (S (S (S (S (S
    (S (S (S (S (S (S (S (S (S (S (S (S (S (S (S (S (S (S (S (S (S (S
    O)))))))))))))))))))))))))))))))))))))))))))))))))))))))))))) :: ((S (S
    (S (S (S (S (S (S (S (S (S (S (S (S (S (S (S (S (S (S (S (S (S (S (S (S
    (S (S (S (S (S (S (S (S (S (S (S (S (S (S (S (S (S (S (S (S (S (S (S (S
    (S (S O)))))))))))))))))))))))))))))))))))))))))))))))))))) :: ((S (S (S
    (S (S (S (S (S (S (S (S (S (S (S (S (S (S (S (S (S (S (S (S (S (S (S (S
    (S (S (S (S (S (S (S (S (S (S (S (S (S (S (S (S (S
    O)))))))))))))))))))))))))))))))))))))))))))) :: ((S (S (S (S (S (S (S (S
    (S (S (S (S (S (S (S (S (S (S (S (S (S (S (S (S (S (S (S (S (S (S (S (S
    (S (S (S (S O)))))))))))))))))))))))))))))))))))) :: ((S (S (S (S (S (S
    (S (S (S (S (S (S (S (S (S (S (S (S (S (S (S (S (S (S (S (S (S (S
    O)))))))))))))))))))))))))))) :: ((S (S (S (S (S (S (S (S (S (S (S (S (S
    (S (S (S (S (S (S (S O)))))))))))))))))))) :: ((S (S (S (S (S (S (S (S (S
    (S (S (S O)))))))))))) :: ((S (S (S (S O)))) :: ((S (S (S (S (S (S (S (S
    (S (S (S (S (S (S (S (S (S (S (S (S (S (S (S (S (S (S (S (S (S (S (S (S
    (S (S (S (S (S (S (S (S (S (S (S (S (S (S (S (S (S (S (S (S (S (S (S (S
    (S (S (S (S (S (S
    O)))))))))))))))))))))))))))))))))))))))))))))))))))))))))))))) :: ((S (S
    (S (S (S (S (S (S (S (S (S (S (S (S (S (S (S (S (S (S (S (S (S (S (S (S
    (S (S (S (S (S (S (S (S (S (S (S (S (S (S (S (S (S (S (S (S (S (S (S (S
    (S (S (S (S
    O)))))))))))))))))))))))))))))))))))))))))))))))))))))) :: ((S (S (S (S
    (S (S (S (S (S (S (S (S (S (S (S (S (S (S (S (S (S (S (S (S (S (S (S (S
    (S (S (S (S (S (S (S (S (S (S (S (S (S (S (S (S (S (S
    O)))))))))))))))))))))))))))))))))))))))))))))) :: ((S (S (S (S (S (S (S
    (S (S (S (S (S (S (S (S (S (S (S (S (S (S (S (S (S (S (S (S (S (S (S (S
    (S (S (S (S (S (S (S O)))))))))))))))))))))))))))))))))))))) :: ((S (S (S
    (S (S (S (S (S (S (S (S (S (S (S (S (S (S (S (S (S (S (S (S (S (S (S (S
    (S (S (S O)))))))))))))))))))))))))))))) :: ((S (S (S (S (S (S (S (S (S
    (S (S (S (S (S (S (S (S (S (S (S (S (S O)))))))))))))))))))))) :: ((S (S
    (S (S (S (S (S (S (S (S (S (S (S (S O)))))))))))))) :: ((S (S (S (S (S (S
    O)))))) :: ((S (S (S (S (S (S (S (S (S (S (S (S (S (S (S (S (S (S (S (S
    (S (S (S (S (S (S (S (S (S (S (S (S (S (S (S (S (S (S (S (S (S (S (S (S
    (S (S (S (S (S (S (S (S (S (S (S (S (S (S (S (S (S (S (S (S
    O)))))))))))))))))))))))))))))))))))))))))))))))))))))))))))))))) :: ((S
    (S (S (S (S (S (S (S (S (S (S (S (S (S (S (S (S (S (S (S (S (S (S (S (S
    (S (S (S (S (S (S (S (S (S (S (S (S (S (S (S (S (S (S (S (S (S (S (S (S
    (S (S (S (S (S (S (S
    O)))))))))))))))))))))))))))))))))))))))))))))))))))))))) :: ((S (S (S (S
    (S (S (S (S (S (S (S (S (S (S (S (S (S (S (S (S (S (S (S (S (S (S (S (S
    (S (S (S (S (S (S (S (S (S (S (S (S (S (S (S (S (S (S (S (S
    O)))))))))))))))))))))))))))))))))))))))))))))))) :: ((S (S (S (S (S (S
    (S (S (S (S (S (S (S (S (S (S (S (S (S (S (S (S (S (S (S (S (S (S (S (S
    (S (S (S (S (S (S (S (S (S (S
    O)))))))))))))))))))))))))))))))))))))))) :: ((S (S (S (S (S (S (S (S (S
    (S (S (S (S (S (S (S (S (S (S (S (S (S (S (S (S (S (S (S (S (S (S (S
    O)))))))))))))))))))))))))))))))) :: ((S (S (S (S (S (S (S (S (S (S (S (S
    (S (S (S (S (S (S (S (S (S (S (S (S O)))))))))))))))))))))))) :: ((S (S
    (S (S (S (S (S (S (S (S (S (S (S (S (S (S O)))))))))))))))) :: ((S (S (S
    (S (S (S (S (S O)))))))) :: ((S (S (S (S (S (S (S (S (S (S (S (S (S (S (S
    (S (S (S (S (S (S (S (S (S (S (S (S (S (S (S (S (S (S (S (S (S (S (S (S
    (S (S (S (S (S (S (S (S (S (S (S (S (S (S (S (S (S (S
    O))))))))))))))))))))))))))))))))))))))))))))))))))))))))) :: ((S (S (S
    (S (S (S (S (S (S (S (S (S (S (S (S (S (S (S (S (S (S (S (S (S (S (S (S
    (S (S (S (S (S (S (S (S (S (S (S (S (S (S (S (S (S (S (S (S (S (S
    O))))))))))))))))))))))))))))))))))))))))))))))))) :: ((S (S (S (S (S (S
    (S (S (S (S (S (S (S (S (S (S (S (S (S (S (S (S (S (S (S (S (S (S (S (S
    (S (S (S (S (S (S (S (S (S (S (S
    O))))))))))))))))))))))))))))))))))))))))) :: ((S (S (S (S (S (S (S (S (S
    (S (S (S (S (S (S (S (S (S (S (S (S (S (S (S (S (S (S (S (S (S (S (S (S
    O))))))))))))))))))))))))))))))))) :: ((S (S (S (S (S (S (S (S (S (S (S
    (S (S (S (S (S (S (S (S (S (S (S (S (S (S
    O))))))))))))))))))))))))) :: ((S (S (S (S (S (S (S (S (S (S (S (S (S (S
    (S (S (S O))))))))))))))))) :: ((S (S (S (S (S (S (S (S (S
    O))))))))) :: ((S O) :: ((S (S (S (S (S (S (S (S (S (S (S (S (S (S (S (S
    (S (S (S (S (S (S (S (S (S (S (S (S (S (S (S (S (S (S (S (S (S (S (S (S
    (S (S (S (S (S (S (S (S (S (S (S (S (S (S (S (S (S (S (S
    O))))))))))))))))))))))))))))))))))))))))))))))))))))))))))) :: ((S (S (S
    (S (S (S (S (S (S (S (S (S (S (S (S (S (S (S (S (S (S (S (S (S (S (S (S
    (S (S (S (S (S (S (S (S (S (S (S (S (S (S (S (S (S (S (S (S (S (S (S (S
    O))))))))))))))))))))))))))))))))))))))))))))))))))) :: ((S (S (S (S (S
    (S (S (S (S (S (S (S (S (S (S (S (S (S (S (S (S (S (S (S (S (S (S (S (S
    (S (S (S (S (S (S (S (S (S (S (S (S (S (S
    O))))))))))))))))))))))))))))))))))))))))))) :: ((S (S (S (S (S (S (S (S
    (S (S (S (S (S (S (S (S (S (S (S (S (S (S (S (S (S (S (S (S (S (S (S (S
    (S (S (S O))))))))))))))))))))))))))))))))))) :: ((S (S (S (S (S (S (S (S
    (S (S (S (S (S (S (S (S (S (S (S (S (S (S (S (S (S (S (S
    O))))))))))))))))))))))))))) :: ((S (S (S (S (S (S (S (S (S (S (S (S (S
    (S (S (S (S (S (S O))))))))))))))))))) :: ((S (S (S (S (S (S (S (S (S (S
    (S O))))))))))) :: ((S (S (S O))) :: ((S (S (S (S (S (S (S (S (S (S (S (S
    (S (S (S (S (S (S (S (S (S (S (S (S (S (S (S (S (S (S (S (S (S (S (S (S
    (S (S (S (S (S (S (S (S (S (S (S (S (S (S (S (S (S (S (S (S (S (S (S (S
    (S O))))))))))))))))))))))))))))))))))))))))))))))))))))))))))))) :: ((S
    (S (S (S (S (S (S (S (S (S (S (S (S (S (S (S (S (S (S (S (S (S (S (S (S
    (S (S (S (S (S (S (S (S (S (S (S (S (S (S (S (S (S (S (S (S (S (S (S (S
    (S (S (S (S O))))))))))))))))))))))))))))))))))))))))))))))))))))) :: ((S
    (S (S (S (S (S (S (S (S (S (S (S (S (S (S (S (S (S (S (S (S (S (S (S (S
    (S (S (S (S (S (S (S (S (S (S (S (S (S (S (S (S (S (S (S (S
    O))))))))))))))))))))))))))))))))))))))))))))) :: ((S (S (S (S (S (S (S
    (S (S (S (S (S (S (S (S (S (S (S (S (S (S (S (S (S (S (S (S (S (S (S (S
    (S (S (S (S (S (S O))))))))))))))))))))))))))))))))))))) :: ((S (S (S (S
    (S (S (S (S (S (S (S (S (S (S (S (S (S (S (S (S (S (S (S (S (S (S (S (S
    (S O))))))))))))))))))))))))))))) :: ((S (S (S (S (S (S (S (S (S (S (S (S
    (S (S (S (S (S (S (S (S (S O))))))))))))))))))))) :: ((S (S (S (S (S (S
    (S (S (S (S (S (S (S O))))))))))))) :: ((S (S (S (S (S O))))) :: ((S (S
    (S (S (S (S (S (S (S (S (S (S (S (S (S (S (S (S (S (S (S (S (S (S (S (S
    (S (S (S (S (S (S (S (S (S (S (S (S (S (S (S (S (S (S (S (S (S (S (S (S
    (S (S (S (S (S (S (S (S (S (S (S (S (S
    O))))))))))))))))))))))))))))))))))))))))))))))))))))))))))))))) :: ((S
    (S (S (S (S (S (S (S (S (S (S (S (S (S (S (S (S (S (S (S (S (S (S (S (S
    (S (S (S (S (S (S (S (S (S (S (S (S (S (S (S (S (S (S (S (S (S (S (S (S
    (S (S (S (S (S (S
    O))))))))))))))))))))))))))))))))))))))))))))))))))))))) :: ((S (S (S (S
    (S (S (S (S (S (S (S (S (S (S (S (S (S (S (S (S (S (S (S (S (S (S (S (S
    (S (S (S (S (S (S (S (S (S (S (S (S (S (S (S (S (S (S (S
    O))))))))))))))))))))))))))))))))))))))))))))))) :: ((S (S (S (S (S (S (S
    (S (S (S (S (S (S (S (S (S (S (S (S (S (S (S (S (S (S (S (S (S (S (S (S
    (S (S (S (S (S (S (S (S O))))))))))))))))))))))))))))))))))))))) :: ((S
    (S (S (S (S (S (S (S (S (S (S (S (S (S (S (S (S (S (S (S (S (S (S (S (S
    (S (S (S (S (S (S O))))))))))))))))))))))))))))))) :: ((S (S (S (S (S (S
    (S (S (S (S (S (S (S (S (S (S (S (S (S (S (S (S (S
    O))))))))))))))))))))))) :: ((S (S (S (S (S (S (S (S (S (S (S (S (S (S (S
    O))))))))))))))) :: ((S (S (S (S (S (S (S
    O))))))) :: [])))))))))))))))))))))))))))))))))))))))))))))))))))))))))))))))

(** val fP_tbl : nat list **)

let fP_tbl =
  (S (S (S (S (S (S (S (S (S (S (S (S (S (S (S (S (S (S (S (S (S (S (S (S (S
    (S (S (S (S (S (S (S (S (S (S (S (S (S (S (S
    O)))))))))))))))))))))))))))))))))))))))) :: ((S (S (S (S (S (S (S (S
    O)))))))) :: ((S (S (S (S (S (S (S (S (S (S (S (S (S (S (S (S (S (S (S (S
    (S (S (S (S (S (S (S (S (S (S (S (S (S (S (S (S (S (S (S (S (S (S (S (S
    (S (S (S (S O)))))))))))))))))))))))))))))))))))))))))))))))) :: ((S (S
    (S (S (S (S (S (S (S (S (S (S (S (S (S (S O)))))))))))))))) :: ((S (S (S
    (S (S (S (S (S (S (S (S (S (S (S (S (S (S (S (S (S (S (S (S (S (S (S (S
    (S (S (S (S (S (S (S (S (S (S (S (S (S (S (S (S (S (S (S (S (S (S (S (S
    (S (S (S (S (S
    O)))))))))))))))))))))))))))))))))))))))))))))))))))))))) :: ((S (S (S (S
    (S (S (S (S (S (S (S (S (S (S (S (S (S (S (S (S (S (S (S (S
    O)))))))))))))))))))))))) :: ((S (S (S (S (S (S (S (S (S (S (S (S (S (S
    (S (S (S (S (S (S (S (S (S (S (S (S (S (S (S (S (S (S (S (S (S (S (S (S
    (S (S (S (S (S (S (S (S (S (S (S (S (S (S (S (S (S (S (S (S (S (S (S (S
    (S (S
    O)))))))))))))))))))))))))))))))))))))))))))))))))))))))))))))))) :: ((S
    (S (S (S (S (S (S (S (S (S (S (S (S (S (S (S (S (S (S (S (S (S (S (S (S
    (S (S (S (S (S (S (S O)))))))))))))))))))))))))))))))) :: ((S (S (S (S (S
    (S (S (S (S (S (S (S (S (S (S (S (S (S (S (S (S (S (S (S (S (S (S (S (S
    (S (S (S (S (S (S (S (S (S (S
    O))))))))))))))))))))))))))))))))))))))) :: ((S (S (S (S (S (S (S
    O))))))) :: ((S (S (S (S (S (S (S (S (S (S (S (S (S (S (S (S (S (S (S (S
    (S (S (S (S (S (S (S (S (S (S (S (S (S (S (S (S (S (S (S (S (S (S (S (S
    (S (S (S O))))))))))))))))))))))))))))))))))))))))))))))) :: ((S (S (S (S
    (S (S (S (S (S (S (S (S (S (S (S O))))))))))))))) :: ((S (S (S (S (S (S
    (S (S (S (S (S (S (S (S (S (S (S (S (S (S (S (S (S (S (S (S (S (S (S (S
    (S (S (S (S (S (S (S (S (S (S (S (S (S (S (S (S (S (S (S (S (S (S (S (S
    (S O))))))))))))))))))))))))))))))))))))))))))))))))))))))) :: ((S (S (S
    (S (S (S (S (S (S (S (S (S (S (S (S (S (S (S (S (S (S (S (S
    O))))))))))))))))))))))) :: ((S (S (S (S (S (S (S (S (S (S (S (S (S (S (S
    (S (S (S (S (S (S (S (S (S (S (S (S (S (S (S (S (S (S (S (S (S (S (S (S
    (S (S (S (S (S (S (S (S (S (S (S (S (S (S (S (S (S (S (S (S (S (S (S (S
    O))))))))))))))))))))))))))))))))))))))))))))))))))))))))))))))) :: ((S
    (S (S (S (S (S (S (S (S (S (S (S (S (S (S (S (S (S (S (S (S (S (S (S (S
    (S (S (S (S (S (S O))))))))))))))))))))))))))))))) :: ((S (S (S (S (S (S
    (S (S (S (S (S (S (S (S (S (S (S (S (S (S (S (S (S (S (S (S (S (S (S (S
    (S (S (S (S (S (S (S (S O)))))))))))))))))))))))))))))))))))))) :: ((S (S
    (S (S (S (S O)))))) :: ((S (S (S (S (S (S (S (S (S (S (S (S (S (S (S (S
    (S (S (S (S (S (S (S (S (S (S (S (S (S (S (S (S (S (S (S (S (S (S (S (S
    (S (S (S (S (S (S O)))))))))))))))))))))))))))))))))))))))))))))) :: ((S
    (S (S (S (S (S (S (S (S (S (S (S (S (S O)))))))))))))) :: ((S (S (S (S (S
    (S (S (S (S (S (S (S (S (S (S (S (S (S (S (S (S (S (S (S (S (S (S (S (S
    (S (S (S (S (S (S (S (S (S (S (S (S (S (S (S (S (S (S (S (S (S (S (S (S
    (S O)))))))))))))))))))))))))))))))))))))))))))))))))))))) :: ((S (S (S
    (S (S (S (S (S (S (S (S (S (S (S (S (S (S (S (S (S (S (S
    O)))))))))))))))))))))) :: ((S (S (S (S (S (S (S (S (S (S (S (S (S (S (S
    (S (S (S (S (S (S (S (S (S (S (S (S (S (S (S (S (S (S (S (S (S (S (S (S
    (S (S (S (S (S (S (S (S (S (S (S (S (S (S (S (S (S (S (S (S (S (S (S
    O)))))))))))))))))))))))))))))))))))))))))))))))))))))))))))))) :: ((S (S
    (S (S (S (S (S (S (S (S (S (S (S (S (S (S (S (S (S (S (S (S (S (S (S (S
    (S (S (S (S O)))))))))))))))))))))))))))))) :: ((S (S (S (S (S (S (S (S
    (S (S (S (S (S (S (S (S (S (S (S (S (S (S (S (S (S (S (S (S (S (S (S (S
    (S (S (S (S (S O))))))))))))))))))))))))))))))))))))) :: ((S (S (S (S (S
    O))))) :: ((S (S (S (S (S (S (S (S (S (S (S (S (S (S (S (S (S (S (S (S (S
    (S (S (S (S (S (S (S (S (S (S (S (S (S (S (S (S (S (S (S (S (S (S (S (S
    O))))))))))))))))))))))))))))))))))))))))))))) :: ((S (S (S (S (S (S (S
    (S (S (S (S (S (S O))))))))))))) :: ((S (S (S (S (S (S (S (S (S (S (S (S
    (S (S (S (S (S (S (S (S (S (S (S (S (S (S (S (S (S (S (S (S (S (S (S (S
    (S (S (S (S (S (S (S (S (S (S (S (S (S (S (S (S (S
    O))))))))))))))))))))))))))))))))))))))))))))))))))))) :: ((S (S (S (S (S
    (S (S (S (S (S (S (S (S (S (S (S (S (S (S (S (S
    O))))))))))))))))))))) :: ((S (S (S (S (S (S (S (S (S (S (S (S (S (S (S
    (S (S (S (S (S (S (S (S (S (S (S (S (S (S (S (S (S (S (S (S (S (S (S (S
    (S (S (S (S (S (S (S (S (S (S (S (S (S (S (S (S (S (S (S (S (S (S
    O))))))))))))))))))))))))))))))))))))))))))))))))))))))))))))) :: ((S (S
    (S (S (S (S (S (S (S (S (S (S (S (S (S (S (S (S (S (S (S (S (S (S (S (S
    (S (S (S O))))))))))))))))))))))))))))) :: ((S (S (S (S (S (S (S (S (S (S
    (S (S (S (S (S (S (S (S (S (S (S (S (S (S (S (S (S (S (S (S (S (S (S (S
    (S (S O)))))))))))))))))))))))))))))))))))) :: ((S (S (S (S O)))) :: ((S
    (S (S (S (S (S (S (S (S (S (S (S (S (S (S (S (S (S (S (S (S (S (S (S (S
    (S (S (S (S (S (S (S (S (S (S (S (S (S (S (S (S (S (S (S
    O)))))))))))))))))))))))))))))))))))))))))))) :: ((S (S (S (S (S (S (S (S
    (S (S (S (S O)))))))))))) :: ((S (S (S (S (S (S (S (S (S (S (S (S (S (S
    (S (S (S (S (S (S (S (S (S (S (S (S (S (S (S (S (S (S (S (S (S (S (S (S
    (S (S (S (S (S (S (S (S (S (S (S (S (S (S
    O)))))))))))))))))))))))))))))))))))))))))))))))))))) :: ((S (S (S (S (S
    (S (S (S (S (S (S (S (S (S (S (S (S (S (S (S O)))))))))))))))))))) :: ((S
    (S (S (S (S (S (S (S (S (S (S (S (S (S (S (S (S (S (S (S (S (S (S (S (S
    (S (S (S (S (S (S (S (S (S (S (S (S (S (S (S (S (S (S (S (S (S (S (S (S
    (S (S (S (S (S (S (S (S (S (S (S
    O)))))))))))))))))))))))))))))))))))))))))))))))))))))))))))) :: ((S (S
    (S (S (S (S (S (S (S (S (S (S (S (S (S (S (S (S (S (S (S (S (S (S (S (S
    (S (S O)))))))))))))))))))))))))))) :: ((S (S (S (S (S (S (S (S (S (S (S
    (S (S (S (S (S (S (S (S (S (S (S (S (S (S (S (S (S (S (S (S (S (S (S (S
    O))))))))))))))))))))))))))))))))))) :: ((S (S (S O))) :: ((S (S (S (S (S
    (S (S (S (S (S (S (S (S (S (S (S (S (S (S (S (S (S (S (S (S (S (S (S (S
    (S (S (S (S (S (S (S (S (S (S (S (S (S (S
    O))))))))))))))))))))))))))))))))))))))))))) :: ((S (S (S (S (S (S (S (S
    (S (S (S O))))))))))) :: ((S (S (S (S (S (S (S (S (S (S (S (S (S (S (S (S
    (S (S (S (S (S (S (S (S (S (S (S (S (S (S (S (S (S (S (S (S (S (S (S (S
    (S (S (S (S (S (S (S (S (S (S (S
    O))))))))))))))))))))))))))))))))))))))))))))))))))) :: ((S (S (S (S (S
    (S (S (S (S (S (S (S (S (S (S (S (S (S (S O))))))))))))))))))) :: ((S (S
    (S (S (S (S (S (S (S (S (S (S (S (S (S (S (S (S (S (S (S (S (S (S (S (S
    (S (S (S (S (S (S (S (S (S (S (S (S (S (S (S (S (S (S (S (S (S (S (S (S
    (S (S (S (S (S (S (S (S (S
    O))))))))))))))))))))))))))))))))))))))))))))))))))))))))))) :: ((S (S (S
    (S (S (S (S (S (S (S (S (S (S (S (S (S (S (S (S (S (S (S (S (S (S (S (S
    O))))))))))))))))))))))))))) :: ((S (S (S (S (S (S (S (S (S (S (S (S (S
    (S (S (S (S (S (S (S (S (S (S (S (S (S (S (S (S (S (S (S (S (S
    O)))))))))))))))))))))))))))))))))) :: ((S (S O)) :: ((S (S (S (S (S (S
    (S (S (S (S (S (S (S (S (S (S (S (S (S (S (S (S (S (S (S (S (S (S (S (S
    (S (S (S (S (S (S (S (S (S (S (S (S
    O)))))))))))))))))))))))))))))))))))))))))) :: ((S (S (S (S (S (S (S (S
    (S (S O)))))))))) :: ((S (S (S (S (S (S (S (S (S (S (S (S (S (S (S (S (S
    (S (S (S (S (S (S (S (S (S (S (S (S (S (S (S (S (S (S (S (S (S (S (S (S
    (S (S (S (S (S (S (S (S (S
    O)))))))))))))))))))))))))))))))))))))))))))))))))) :: ((S (S (S (S (S (S
    (S (S (S (S (S (S (S (S (S (S (S (S O)))))))))))))))))) :: ((S (S (S (S
    (S (S (S (S (S (S (S (S (S (S (S (S (S (S (S (S (S (S (S (S (S (S (S (S
    (S (S (S (S (S (S (S (S (S (S (S (S (S (S (S (S (S (S (S (S (S (S (S (S
    (S (S (S (S (S (S
    O)))))))))))))))))))))))))))))))))))))))))))))))))))))))))) :: ((S (S (S
    (S (S (S (S (S (S (S (S (S (S (S (S (S (S (S (S (S (S (S (S (S (S (S
    O)))))))))))))))))))))))))) :: ((S (S (S (S (S (S (S (S (S (S (S (S (S (S
    (S (S (S (S (S (S (S (S (S (S (S (S (S (S (S (S (S (S (S
    O))))))))))))))))))))))))))))))))) :: ((S O) :: ((S (S (S (S (S (S (S (S
    (S (S (S (S (S (S (S (S (S (S (S (S (S (S (S (S (S (S (S (S (S (S (S (S
    (S (S (S (S (S (S (S (S (S
    O))))))))))))))))))))))))))))))))))))))))) :: ((S (S (S (S (S (S (S (S (S
    O))))))))) :: ((S (S (S (S (S (S (S (S (S (S (S (S (S (S (S (S (S (S (S
    (S (S (S (S (S (S (S (S (S (S (S (S (S (S (S (S (S (S (S (S (S (S (S (S
    (S (S (S (S (S (S
    O))))))))))))))))))))))))))))))))))))))))))))))))) :: ((S (S (S (S (S (S
    (S (S (S (S (S (S (S (S (S (S (S O))))))))))))))))) :: ((S (S (S (S (S (S
    (S (S (S (S (S (S (S (S (S (S (S (S (S (S (S (S (S (S (S (S (S (S (S (S
    (S (S (S (S (S (S (S (S (S (S (S (S (S (S (S (S (S (S (S (S (S (S (S (S
    (S (S (S
    O))))))))))))))))))))))))))))))))))))))))))))))))))))))))) :: ((S (S (S
    (S (S (S (S (S (S (S (S (S (S (S (S (S (S (S (S (S (S (S (S (S (S
    O))))))))))))))))))))))))) :: [])))))))))))))))))))))))))))))))))))))))))))))))))))))))))))))))

(** val e_tbl : nat list **)

let e_tbl =
  (S (S (S (S (S (S (S (S (S (S (S (S (S (S (S (S (S (S (S (S (S (S (S (S (S
    (S (S (S (S (S (S (S O)))))))))))))))))))))))))))))))) :: ((S O) :: ((S
    (S O)) :: ((S (S (S O))) :: ((S (S (S (S O)))) :: ((S (S (S (S (S
    O))))) :: ((S (S (S (S O)))) :: ((S (S (S (S (S O))))) :: ((S (S (S (S (S
    (S O)))))) :: ((S (S (S (S (S (S (S O))))))) :: ((S (S (S (S (S (S (S (S
    O)))))))) :: ((S (S (S (S (S (S (S (S (S O))))))))) :: ((S (S (S (S (S (S
    (S (S O)))))))) :: ((S (S (S (S (S (S (S (S (S O))))))))) :: ((S (S (S (S
    (S (S (S (S (S (S O)))))))))) :: ((S (S (S (S (S (S (S (S (S (S (S
    O))))))))))) :: ((S (S (S (S (S (S (S (S (S (S (S (S O)))))))))))) :: ((S
    (S (S (S (S (S (S (S (S (S (S (S (S O))))))))))))) :: ((S (S (S (S (S (S
    (S (S (S (S (S (S O)))))))))))) :: ((S (S (S (S (S (S (S (S (S (S (S (S
    (S O))))))))))))) :: ((S (S (S (S (S (S (S (S (S (S (S (S (S (S
    O)))))))))))))) :: ((S (S (S (S (S (S (S (S (S (S (S (S (S (S (S
    O))))))))))))))) :: ((S (S (S (S (S (S (S (S (S (S (S (S (S (S (S (S
    O)))))))))))))))) :: ((S (S (S (S (S (S (S (S (S (S (S (S (S (S (S (S (S
    O))))))))))))))))) :: ((S (S (S (S (S (S (S (S (S (S (S (S (S (S (S (S
    O)))))))))))))))) :: ((S (S (S (S (S (S (S (S (S (S (S (S (S (S (S (S (S
    O))))))))))))))))) :: ((S (S (S (S (S (S (S (S (S (S (S (S (S (S (S (S (S
    (S O)))))))))))))))))) :: ((S (S (S (S (S (S (S (S (S (S (S (S (S (S (S
    (S (S (S (S O))))))))))))))))))) :: ((S (S (S (S (S (S (S (S (S (S (S (S
    (S (S (S (S (S (S (S (S O)))))))))))))))))))) :: ((S (S (S (S (S (S (S (S
    (S (S (S (S (S (S (S (S (S (S (S (S (S O))))))))))))))))))))) :: ((S (S
    (S (S (S (S (S (S (S (S (S (S (S (S (S (S (S (S (S (S
    O)))))))))))))))))))) :: ((S (S (S (S (S (S (S (S (S (S (S (S (S (S (S (S
    (S (S (S (S (S O))))))))))))))))))))) :: ((S (S (S (S (S (S (S (S (S (S
    (S (S (S (S (S (S (S (S (S (S (S (S O)))))))))))))))))))))) :: ((S (S (S
    (S (S (S (S (S (S (S (S (S (S (S (S (S (S (S (S (S (S (S (S
    O))))))))))))))))))))))) :: ((S (S (S (S (S (S (S (S (S (S (S (S (S (S (S
    (S (S (S (S (S (S (S (S (S O)))))))))))))))))))))))) :: ((S (S (S (S (S
    (S (S (S (S (S (S (S (S (S (S (S (S (S (S (S (S (S (S (S (S
    O))))))))))))))))))))))))) :: ((S (S (S (S (S (S (S (S (S (S (S (S (S (S
    (S (S (S (S (S (S (S (S (S (S O)))))))))))))))))))))))) :: ((S (S (S (S
    (S (S (S (S (S (S (S (S (S (S (S (S (S (S (S (S (S (S (S (S (S
    O))))))))))))))))))))))))) :: ((S (S (S (S (S (S (S (S (S (S (S (S (S (S
    (S (S (S (S (S (S (S (S (S (S (S (S O)))))))))))))))))))))))))) :: ((S (S
    (S (S (S (S (S (S (S (S (S (S (S (S (S (S (S (S (S (S (S (S (S (S (S (S
    (S O))))))))))))))))))))))))))) :: ((S (S (S (S (S (S (S (S (S (S (S (S
    (S (S (S (S (S (S (S (S (S (S (S (S (S (S (S (S
    O)))))))))))))))))))))))))))) :: ((S (S (S (S (S (S (S (S (S (S (S (S (S
    (S (S (S (S (S (S (S (S (S (S (S (S (S (S (S (S
    O))))))))))))))))))))))))))))) :: ((S (S (S (S (S (S (S (S (S (S (S (S (S
    (S (S (S (S (S (S (S (S (S (S (S (S (S (S (S
    O)))))))))))))))))))))))))))) :: ((S (S (S (S (S (S (S (S (S (S (S (S (S
    (S (S (S (S (S (S (S (S (S (S (S (S (S (S (S (S
    O))))))))))))))))))))))))))))) :: ((S (S (S (S (S (S (S (S (S (S (S (S (S
    (S (S (S (S (S (S (S (S (S (S (S (S (S (S (S (S (S
    O)))))))))))))))))))))))))))))) :: ((S (S (S (S (S (S (S (S (S (S (S (S
    (S (S (S (S (S (S (S (S (S (S (S (S (S (S (S (S (S (S (S
    O))))))))))))))))))))))))))))))) :: ((S (S (S (S (S (S (S (S (S (S (S (S
    (S (S (S (S (S (S (S (S (S (S (S (S (S (S (S (S (S (S (S (S
    O)))))))))))))))))))))))))))))))) :: ((S
    O) :: [])))))))))))))))))))))))))))))))))))))))))))))))

(** val p_tbl : nat list **)

let p_tbl =
  (S (S (S (S (S (S (S (S (S (S (S (S (S (S (S (S O)))))))))))))))) :: ((S (S
    (S (S (S (S (S O))))))) :: ((S (S (S (S (S (S (S (S (S (S (S (S (S (S (S
    (S (S (S (S (S O)))))))))))))))))))) :: ((S (S (S (S (S (S (S (S (S (S (S
    (S (S (S (S (S (S (S (S (S (S O))))))))))))))))))))) :: ((S (S (S (S (S
    (S (S (S (S (S (S (S (S (S (S (S (S (S (S (S (S (S (S (S (S (S (S (S (S
    O))))))))))))))))))))))))))))) :: ((S (S (S (S (S (S (S (S (S (S (S (S
    O)))))))))))) :: ((S (S (S (S (S (S (S (S (S (S (S (S (S (S (S (S (S (S
    (S (S (S (S (S (S (S (S (S (S O)))))))))))))))))))))))))))) :: ((S (S (S
    (S (S (S (S (S (S (S (S (S (S (S (S (S (S O))))))))))))))))) :: ((S
    O) :: ((S (S (S (S (S (S (S (S (S (S (S (S (S (S (S
    O))))))))))))))) :: ((S (S (S (S (S (S (S (S (S (S (S (S (S (S (S (S (S
    (S (S (S (S (S (S O))))))))))))))))))))))) :: ((S (S (S (S (S (S (S (S (S
    (S (S (S (S (S (S (S (S (S (S (S (S (S (S (S (S (S
    O)))))))))))))))))))))))))) :: ((S (S (S (S (S O))))) :: ((S (S (S (S (S
    (S (S (S (S (S (S (S (S (S (S (S (S (S O)))))))))))))))))) :: ((S (S (S
    (S (S (S (S (S (S (S (S (S (S (S (S (S (S (S (S (S (S (S (S (S (S (S (S
    (S (S (S (S O))))))))))))))))))))))))))))))) :: ((S (S (S (S (S (S (S (S
    (S (S O)))))))))) :: ((S (S O)) :: ((S (S (S (S (S (S (S (S
    O)))))))) :: ((S (S (S (S (S (S (S (S (S (S (S (S (S (S (S (S (S (S (S (S
    (S (S (S (S O)))))))))))))))))))))))) :: ((S (S (S (S (S (S (S (S (S (S
    (S (S (S (S O)))))))))))))) :: ((S (S (S (S (S (S (S (S (S (S (S (S (S (S
    (S (S (S (S (S (S (S (S (S (S (S (S (S (S (S (S (S (S
    O)))))))))))))))))))))))))))))))) :: ((S (S (S (S (S (S (S (S (S (S (S (S
    (S (S (S (S (S (S (S (S (S (S (S (S (S (S (S
    O))))))))))))))))))))))))))) :: ((S (S (S O))) :: ((S (S (S (S (S (S (S
    (S (S O))))))))) :: ((S (S (S (S (S (S (S (S (S (S (S (S (S (S (S (S (S
    (S (S O))))))))))))))))))) :: ((S (S (S (S (S (S (S (S (S (S (S (S (S
    O))))))))))))) :: ((S (S (S (S (S (S (S (S (S (S (S (S (S (S (S (S (S (S
    (S (S (S (S (S (S (S (S (S (S (S (S
    O)))))))))))))))))))))))))))))) :: ((S (S (S (S (S (S O)))))) :: ((S (S
    (S (S (S (S (S (S (S (S (S (S (S (S (S (S (S (S (S (S (S (S
    O)))))))))))))))))))))) :: ((S (S (S (S (S (S (S (S (S (S (S
    O))))))))))) :: ((S (S (S (S O)))) :: ((S (S (S (S (S (S (S (S (S (S (S
    (S (S (S (S (S (S (S (S (S (S (S (S (S (S
    O))))))))))))))))))))))))) :: [])))))))))))))))))))))))))))))))

(** val pC1_tbl : nat list **)

let pC1_tbl =
  (S (S (S (S (S (S (S (S (S (S (S (S (S (S (S (S (S (S (S (S (S (S (S (S (S
    (S (S (S (S (S (S (S (S (S (S (S (S (S (S (S (S (S (S (S (S (S (S (S (S
    (S (S (S (S (S (S (S (S
    O))))))))))))))))))))))))))))))))))))))))))))))))))))))))) :: ((S (S (S
    (S (S (S (S (S (S (S (S (S (S (S (S (S (S (S (S (S (S (S (S (S (S (S (S
    (S (S (S (S (S (S (S (S (S (S (S (S (S (S (S (S (S (S (S (S (S (S
    O))))))))))))))))))))))))))))))))))))))))))))))))) :: ((S (S (S (S (S (S
    (S (S (S (S (S (S (S (S (S (S (S (S (S (S (S (S (S (S (S (S (S (S (S (S
    (S (S (S (S (S (S (S (S (S (S (S
    O))))))))))))))))))))))))))))))))))))))))) :: ((S (S (S (S (S (S (S (S (S
    (S (S (S (S (S (S (S (S (S (S (S (S (S (S (S (S (S (S (S (S (S (S (S (S
    O))))))))))))))))))))))))))))))))) :: ((S (S (S (S (S (S (S (S (S (S (S
    (S (S (S (S (S (S (S (S (S (S (S (S (S (S
    O))))))))))))))))))))))))) :: ((S (S (S (S (S (S (S (S (S (S (S (S (S (S
    (S (S (S O))))))))))))))))) :: ((S (S (S (S (S (S (S (S (S
    O))))))))) :: ((S O) :: ((S (S (S (S (S (S (S (S (S (S (S (S (S (S (S (S
    (S (S (S (S (S (S (S (S (S (S (S (S (S (S (S (S (S (S (S (S (S (S (S (S
    (S (S (S (S (S (S (S (S (S (S (S (S (S (S (S (S (S (S
    O)))))))))))))))))))))))))))))))))))))))))))))))))))))))))) :: ((S (S (S
    (S (S (S (S (S (S (S (S (S (S (S (S (S (S (S (S (S (S (S (S (S (S (S (S
    (S (S (S (S (S (S (S (S (S (S (S (S (S (S (S (S (S (S (S (S (S (S (S
    O)))))))))))))))))))))))))))))))))))))))))))))))))) :: ((S (S (S (S (S (S
    (S (S (S (S (S (S (S (S (S (S (S (S (S (S (S (S (S (S (S (S (S (S (S (S
    (S (S (S (S (S (S (S (S (S (S (S (S
    O)))))))))))))))))))))))))))))))))))))))))) :: ((S (S (S (S (S (S (S (S
    (S (S (S (S (S (S (S (S (S (S (S (S (S (S (S (S (S (S (S (S (S (S (S (S
    (S (S O)))))))))))))))))))))))))))))))))) :: ((S (S (S (S (S (S (S (S (S
    (S (S (S (S (S (S (S (S (S (S (S (S (S (S (S (S (S
    O)))))))))))))))))))))))))) :: ((S (S (S (S (S (S (S (S (S (S (S (S (S (S
    (S (S (S (S O)))))))))))))))))) :: ((S (S (S (S (S (S (S (S (S (S
    O)))))))))) :: ((S (S O)) :: ((S (S (S (S (S (S (S (S (S (S (S (S (S (S
    (S (S (S (S (S (S (S (S (S (S (S (S (S (S (S (S (S (S (S (S (S (S (S (S
    (S (S (S (S (S (S (S (S (S (S (S (S (S (S (S (S (S (S (S (S (S
    O))))))))))))))))))))))))))))))))))))))))))))))))))))))))))) :: ((S (S (S
    (S (S (S (S (S (S (S (S (S (S (S (S (S (S (S (S (S (S (S (S (S (S (S (S
    (S (S (S (S (S (S (S (S (S (S (S (S (S (S (S (S (S (S (S (S (S (S (S (S
    O))))))))))))))))))))))))))))))))))))))))))))))))))) :: ((S (S (S (S (S
    (S (S (S (S (S (S (S (S (S (S (S (S (S (S (S (S (S (S (S (S (S (S (S (S
    (S (S (S (S (S (S (S (S (S (S (S (S (S (S
    O))))))))))))))))))))))))))))))))))))))))))) :: ((S (S (S (S (S (S (S (S
    (S (S (S (S (S (S (S (S (S (S (S (S (S (S (S (S (S (S (S (S (S (S (S (S
    (S (S (S O))))))))))))))))))))))))))))))))))) :: ((S (S (S (S (S (S (S (S
    (S (S (S (S (S (S (S (S (S (S (S (S (S (S (S (S (S (S (S
    O))))))))))))))))))))))))))) :: ((S (S (S (S (S (S (S (S (S (S (S (S (S
    (S (S (S (S (S (S O))))))))))))))))))) :: ((S (S (S (S (S (S (S (S (S (S
    (S O))))))))))) :: ((S (S (S O))) :: ((S (S (S (S (S (S (S (S (S (S (S (S
    (S (S (S (S (S (S (S (S (S (S (S (S (S (S (S (S (S (S (S (S (S (S (S (S
    (S (S (S (S (S (S (S (S (S (S (S (S (S (S (S (S (S (S (S (S (S (S (S (S
    O)))))))))))))))))))))))))))))))))))))))))))))))))))))))))))) :: ((S (S
    (S (S (S (S (S (S (S (S (S (S (S (S (S (S (S (S (S (S (S (S (S (S (S (S
    (S (S (S (S (S (S (S (S (S (S (S (S (S (S (S (S (S (S (S (S (S (S (S (S
    (S (S O)))))))))))))))))))))))))))))))))))))))))))))))))))) :: ((S (S (S
    (S (S (S (S (S (S (S (S (S (S (S (S (S (S (S (S (S (S (S (S (S (S (S (S
    (S (S (S (S (S (S (S (S (S (S (S (S (S (S (S (S (S
    O)))))))))))))))))))))))))))))))))))))))))))) :: ((S (S (S (S (S (S (S (S
    (S (S (S (S (S (S (S (S (S (S (S (S (S (S (S (S (S (S (S (S (S (S (S (S
    (S (S (S (S O)))))))))))))))))))))))))))))))))))) :: ((S (S (S (S (S (S
    (S (S (S (S (S (S (S (S (S (S (S (S (S (S (S (S (S (S (S (S (S (S (S (S
    (S (S (S (S (S (S (S (S (S (S (S (S (S (S (S (S (S (S (S (S (S (S (S (S
    (S (S (S (S (S (S (S (S (S
    O))))))))))))))))))))))))))))))))))))))))))))))))))))))))))))))) :: ((S
    (S (S (S (S (S (S (S (S (S (S (S (S (S (S (S (S (S (S (S (S (S (S (S (S
    (S (S (S (S (S (S (S (S (S (S (S (S (S (S (S (S (S (S (S (S (S (S (S (S
    (S (S (S (S (S (S
    O))))))))))))))))))))))))))))))))))))))))))))))))))))))) :: ((S (S (S (S
    (S (S (S (S (S (S (S (S (S (S (S (S (S (S (S (S (S (S (S (S (S (S (S (S
    (S (S (S (S (S (S (S (S (S (S (S (S (S (S (S (S (S (S (S
    O))))))))))))))))))))))))))))))))))))))))))))))) :: ((S (S (S (S (S (S (S
    (S (S (S (S (S (S (S (S (S (S (S (S (S (S (S (S (S (S (S (S (S (S (S (S
    (S (S (S (S (S (S (S (S O))))))))))))))))))))))))))))))))))))))) :: ((S
    (S (S (S (S (S (S (S (S (S (S (S (S (S (S (S (S (S (S (S (S (S (S (S (S
    (S (S (S (S (S (S O))))))))))))))))))))))))))))))) :: ((S (S (S (S (S (S
    (S (S (S (S (S (S (S (S (S (S (S (S (S (S (S (S (S
    O))))))))))))))))))))))) :: ((S (S (S (S (S (S (S (S (S (S (S (S (S (S (S
    O))))))))))))))) :: ((S (S (S (S (S (S (S O))))))) :: ((S (S (S (S (S (S
    (S (S (S (S (S (S (S (S (S (S (S (S (S (S (S (S (S (S (S (S (S (S (S (S
    (S (S (S (S (S (S (S (S (S (S (S (S (S (S (S (S (S (S (S (S (S (S (S (S
    (S (S (S (S (S (S (S (S
    O)))))))))))))))))))))))))))))))))))))))))))))))))))))))))))))) :: ((S (S
    (S (S (S (S (S (S (S (S (S (S (S (S (S (S (S (S (S (S (S (S (S (S (S (S
    (S (S (S (S (S (S (S (S (S (S (S (S (S (S (S (S (S (S (S (S (S (S (S (S
    (S (S (S (S
    O)))))))))))))))))))))))))))))))))))))))))))))))))))))) :: ((S (S (S (S
    (S (S (S (S (S (S (S (S (S (S (S (S (S (S (S (S (S (S (S (S (S (S (S (S
    (S (S (S (S (S (S (S (S (S (S (S (S (S (S (S (S (S (S
    O)))))))))))))))))))))))))))))))))))))))))))))) :: ((S (S (S (S (S (S (S
    (S (S (S (S (S (S (S (S (S (S (S (S (S (S (S (S (S (S (S (S (S (S (S (S
    (S (S (S (S (S (S (S O)))))))))))))))))))))))))))))))))))))) :: ((S (S (S
    (S (S (S (S (S (S (S (S (S (S (S (S (S (S (S (S (S (S (S (S (S (S (S (S
    (S (S (S O)))))))))))))))))))))))))))))) :: ((S (S (S (S (S (S (S (S (S
    (S (S (S (S (S (S (S (S (S (S (S (S (S O)))))))))))))))))))))) :: ((S (S
    (S (S (S (S (S (S (S (S (S (S (S (S O)))))))))))))) :: ((S (S (S (S (S (S
    O)))))) :: ((S (S (S (S (S (S (S (S (S (S (S (S (S (S (S (S (S (S (S (S
    (S (S (S (S (S (S (S (S (S (S (S (S (S (S (S (S (S (S (S (S (S (S (S (S
    (S (S (S (S (S (S (S (S (S (S (S (S (S (S (S (S (S
    O))))))))))))))))))))))))))))))))))))))))))))))))))))))))))))) :: ((S (S
    (S (S (S (S (S (S (S (S (S (S (S (S (S (S (S (S (S (S (S (S (S (S (S (S
    (S (S (S (S (S (S (S (S (S (S (S (S (S (S (S (S (S (S (S (S (S (S (S (S
    (S (S (S O))))))))))))))))))))))))))))))))))))))))))))))))))))) :: ((S (S
    (S (S (S (S (S (S (S (S (S (S (S (S (S (S (S (S (S (S (S (S (S (S (S (S
    (S (S (S (S (S (S (S (S (S (S (S (S (S (S (S (S (S (S (S
    O))))))))))))))))))))))))))))))))))))))))))))) :: ((S (S (S (S (S (S (S
    (S (S (S (S (S (S (S (S (S (S (S (S (S (S (S (S (S (S (S (S (S (S (S (S
    (S (S (S (S (S (S O))))))))))))))))))))))))))))))))))))) :: ((S (S (S (S
    (S (S (S (S (S (S (S (S (S (S (S (S (S (S (S (S (S (S (S (S (S (S (S (S
    (S O))))))))))))))))))))))))))))) :: ((S (S (S (S (S (S (S (S (S (S (S (S
    (S (S (S (S (S (S (S (S (S O))))))))))))))))))))) :: ((S (S (S (S (S (S
    (S (S (S (S (S (S (S O))))))))))))) :: ((S (S (S (S (S O))))) :: ((S (S
    (S (S (S (S (S (S (S (S (S (S (S (S (S (S (S (S (S (S (S (S (S (S (S (S
    (S (S O)))))))))))))))))))))))))))) :: ((S (S (S (S (S (S (S (S (S (S (S
    (S (S (S (S (S (S (S (S (S O)))))))))))))))))))) :: ((S (S (S (S (S (S (S
    (S (S (S (S (S O)))))))))))) :: ((S (S (S (S
    O)))) :: [])))))))))))))))))))))))))))))))))))))))))))))))))))))))

(** val pC2_tbl : nat list **)

let pC2_tbl =
  (S (S (S (S (S (S (S (S (S (S (S (S (S (S O)))))))))))))) :: ((S (S (S (S
    (S (S (S (S (S (S (S (S (S (S (S (S (S O))))))))))))))))) :: ((S (S (S (S
    (S (S (S (S (S (S (S O))))))))))) :: ((S (S (S (S (S (S (S (S (S (S (S (S
    (S (S (S (S (S (S (S (S (S (S (S (S O)))))))))))))))))))))))) :: ((S
    O) :: ((S (S (S (S (S O))))) :: ((S (S (S O))) :: ((S (S (S (S (S (S (S
    (S (S (S (S (S (S (S (S (S (S (S (S (S (S (S (S (S (S (S (S (S
    O)))))))))))))))))))))))))))) :: ((S (S (S (S (S (S (S (S (S (S (S (S (S
    (S (S O))))))))))))))) :: ((S (S (S (S (S (S O)))))) :: ((S (S (S (S (S
    (S (S (S (S (S (S (S (S (S (S (S (S (S (S (S (S
    O))))))))))))))))))))) :: ((S (S (S (S (S (S (S (S (S (S
    O)))))))))) :: ((S (S (S (S (S (S (S (S (S (S (S (S (S (S (S (S (S (S (S
    (S (S (S (S O))))))))))))))))))))))) :: ((S (S (S (S (S (S (S (S (S (S (S
    (S (S (S (S (S (S (S (S O))))))))))))))))))) :: ((S (S (S (S (S (S (S (S
    (S (S (S (S O)))))))))))) :: ((S (S (S (S O)))) :: ((S (S (S (S (S (S (S
    (S (S (S (S (S (S (S (S (S (S (S (S (S (S (S (S (S (S (S
    O)))))))))))))))))))))))))) :: ((S (S (S (S (S (S (S (S O)))))))) :: ((S
    (S (S (S (S (S (S (S (S (S (S (S (S (S (S (S O)))))))))))))))) :: ((S (S
    (S (S (S (S (S O))))))) :: ((S (S (S (S (S (S (S (S (S (S (S (S (S (S (S
    (S (S (S (S (S (S (S (S (S (S (S (S O))))))))))))))))))))))))))) :: ((S
    (S (S (S (S (S (S (S (S (S (S (S (S (S (S (S (S (S (S (S
    O)))))))))))))))))))) :: ((S (S (S (S (S (S (S (S (S (S (S (S (S
    O))))))))))))) :: ((S (S O)) :: ((S (S (S (S (S (S (S (S (S (S (S (S (S
    (S (S (S (S (S (S (S (S (S (S (S (S (S (S (S (S (S (S (S (S (S (S (S (S
    (S (S (S (S O))))))))))))))))))))))))))))))))))))))))) :: ((S (S (S (S (S
    (S (S (S (S (S (S (S (S (S (S (S (S (S (S (S (S (S (S (S (S (S (S (S (S
    (S (S (S (S (S (S (S (S (S (S (S (S (S (S (S (S (S (S (S (S (S (S (S
    O)))))))))))))))))))))))))))))))))))))))))))))))))))) :: ((S (S (S (S (S
    (S (S (S (S (S (S (S (S (S (S (S (S (S (S (S (S (S (S (S (S (S (S (S (S
    (S (S O))))))))))))))))))))))))))))))) :: ((S (S (S (S (S (S (S (S (S (S
    (S (S (S (S (S (S (S (S (S (S (S (S (S (S (S (S (S (S (S (S (S (S (S (S
    (S (S (S O))))))))))))))))))))))))))))))))))))) :: ((S (S (S (S (S (S (S
    (S (S (S (S (S (S (S (S (S (S (S (S (S (S (S (S (S (S (S (S (S (S (S (S
    (S (S (S (S (S (S (S (S (S (S (S (S (S (S (S (S
    O))))))))))))))))))))))))))))))))))))))))))))))) :: ((S (S (S (S (S (S (S
    (S (S (S (S (S (S (S (S (S (S (S (S (S (S (S (S (S (S (S (S (S (S (S (S
    (S (S (S (S (S (S (S (S (S (S (S (S (S (S (S (S (S (S (S (S (S (S (S (S
    O))))))))))))))))))))))))))))))))))))))))))))))))))))))) :: ((S (S (S (S
    (S (S (S (S (S (S (S (S (S (S (S (S (S (S (S (S (S (S (S (S (S (S (S (S
    (S (S O)))))))))))))))))))))))))))))) :: ((S (S (S (S (S (S (S (S (S (S
    (S (S (S (S (S (S (S (S (S (S (S (S (S (S (S (S (S (S (S (S (S (S (S (S
    (S (S (S (S (S (S O)))))))))))))))))))))))))))))))))))))))) :: ((S (S (S
    (S (S (S (S (S (S (S (S (S (S (S (S (S (S (S (S (S (S (S (S (S (S (S (S
    (S (S (S (S (S (S (S (S (S (S (S (S (S (S (S (S (S (S (S (S (S (S (S (S
    O))))))))))))))))))))))))))))))))))))))))))))))))))) :: ((S (S (S (S (S
    (S (S (S (S (S (S (S (S (S (S (S (S (S (S (S (S (S (S (S (S (S (S (S (S
    (S (S (S (S (S (S (S (S (S (S (S (S (S (S (S (S
    O))))))))))))))))))))))))))))))))))))))))))))) :: ((S (S (S (S (S (S (S
    (S (S (S (S (S (S (S (S (S (S (S (S (S (S (S (S (S (S (S (S (S (S (S (S
    (S (S O))))))))))))))))))))))))))))))))) :: ((S (S (S (S (S (S (S (S (S
    (S (S (S (S (S (S (S (S (S (S (S (S (S (S (S (S (S (S (S (S (S (S (S (S
    (S (S (S (S (S (S (S (S (S (S (S (S (S (S (S
    O)))))))))))))))))))))))))))))))))))))))))))))))) :: ((S (S (S (S (S (S
    (S (S (S (S (S (S (S (S (S (S (S (S (S (S (S (S (S (S (S (S (S (S (S (S
    (S (S (S (S (S (S (S (S (S (S (S (S (S (S
    O)))))))))))))))))))))))))))))))))))))))))))) :: ((S (S (S (S (S (S (S (S
    (S (S (S (S (S (S (S (S (S (S (S (S (S (S (S (S (S (S (S (S (S (S (S (S
    (S (S (S (S (S (S (S (S (S (S (S (S (S (S (S (S (S
    O))))))))))))))))))))))))))))))))))))))))))))))))) :: ((S (S (S (S (S (S
    (S (S (S (S (S (S (S (S (S (S (S (S (S (S (S (S (S (S (S (S (S (S (S (S
    (S (S (S (S (S (S (S (S (S
    O))))))))))))))))))))))))))))))))))))))) :: ((S (S (S (S (S (S (S (S (S
    (S (S (S (S (S (S (S (S (S (S (S (S (S (S (S (S (S (S (S (S (S (S (S (S
    (S (S (S (S (S (S (S (S (S (S (S (S (S (S (S (S (S (S (S (S (S (S (S
    O)))))))))))))))))))))))))))))))))))))))))))))))))))))))) :: ((S (S (S (S
    (S (S (S (S (S (S (S (S (S (S (S (S (S (S (S (S (S (S (S (S (S (S (S (S
    (S (S (S (S (S (S O)))))))))))))))))))))))))))))))))) :: ((S (S (S (S (S
    (S (S (S (S (S (S (S (S (S (S (S (S (S (S (S (S (S (S (S (S (S (S (S (S
    (S (S (S (S (S (S (S (S (S (S (S (S (S (S (S (S (S (S (S (S (S (S (S (S
    O))))))))))))))))))))))))))))))))))))))))))))))))))))) :: ((S (S (S (S (S
    (S (S (S (S (S (S (S (S (S (S (S (S (S (S (S (S (S (S (S (S (S (S (S (S
    (S (S (S (S (S (S (S (S (S (S (S (S (S (S (S (S (S
    O)))))))))))))))))))))))))))))))))))))))))))))) :: ((S (S (S (S (S (S (S
    (S (S (S (S (S (S (S (S (S (S (S (S (S (S (S (S (S (S (S (S (S (S (S (S
    (S (S (S (S (S (S (S (S (S (S (S
    O)))))))))))))))))))))))))))))))))))))))))) :: ((S (S (S (S (S (S (S (S
    (S (S (S (S (S (S (S (S (S (S (S (S (S (S (S (S (S (S (S (S (S (S (S (S
    (S (S (S (S (S (S (S (S (S (S (S (S (S (S (S (S (S (S
    O)))))))))))))))))))))))))))))))))))))))))))))))))) :: ((S (S (S (S (S (S
    (S (S (S (S (S (S (S (S (S (S (S (S (S (S (S (S (S (S (S (S (S (S (S (S
    (S (S (S (S (S (S O)))))))))))))))))))))))))))))))))))) :: ((S (S (S (S
    (S (S (S (S (S (S (S (S (S (S (S (S (S (S (S (S (S (S (S (S (S (S (S (S
    (S O))))))))))))))))))))))))))))) :: ((S (S (S (S (S (S (S (S (S (S (S (S
    (S (S (S (S (S (S (S (S (S (S (S (S (S (S (S (S (S (S (S (S
    O)))))))))))))))))))))))))))))))) :: [])))))))))))))))))))))))))))))))))))))))))))))))

(** val key_shifts : nat list **)

let key_shifts =
  (S O) :: ((S O) :: ((S (S O)) :: ((S (S O)) :: ((S (S O)) :: ((S (S
    O)) :: ((S (S O)) :: ((S (S O)) :: ((S O) :: ((S (S O)) :: ((S (S
    O)) :: ((S (S O)) :: ((S (S O)) :: ((S (S O)) :: ((S (S O)) :: ((S
    O) :: [])))))))))))))))

(** val s1 : nat list **)

let s1 =
  (S (S (S (S (S (S (S (S (S (S (S (S (S (S O)))))))))))))) :: ((S (S (S (S
    O)))) :: ((S (S (S (S (S (S (S (S (S (S (S (S (S O))))))))))))) :: ((S
    O) :: ((S (S O)) :: ((S (S (S (S (S (S (S (S (S (S (S (S (S (S (S
    O))))))))))))))) :: ((S (S (S (S (S (S (S (S (S (S (S O))))))))))) :: ((S
    (S (S (S (S (S (S (S O)))))))) :: ((S (S (S O))) :: ((S (S (S (S (S (S (S
    (S (S (S O)))))))))) :: ((S (S (S (S (S (S O)))))) :: ((S (S (S (S (S (S
    (S (S (S (S (S (S O)))))))))))) :: ((S (S (S (S (S O))))) :: ((S (S (S (S
    (S (S (S (S (S O))))))))) :: (O :: ((S (S (S (S (S (S (S
    O))))))) :: (O :: ((S (S (S (S (S (S (S (S (S (S (S (S (S (S (S
    O))))))))))))))) :: ((S (S (S (S (S (S (S O))))))) :: ((S (S (S (S
    O)))) :: ((S (S (S (S (S (S (S (S (S (S (S (S (S (S
    O)))))))))))))) :: ((S (S O)) :: ((S (S (S (S (S (S (S (S (S (S (S (S (S
    O))))))))))))) :: ((S O) :: ((S (S (S (S (S (S (S (S (S (S
    O)))))))))) :: ((S (S (S (S (S (S O)))))) :: ((S (S (S (S (S (S (S (S (S
    (S (S (S O)))))))))))) :: ((S (S (S (S (S (S (S (S (S (S (S
    O))))))))))) :: ((S (S (S (S (S (S (S (S (S O))))))))) :: ((S (S (S (S (S
    O))))) :: ((S (S (S O))) :: ((S (S (S (S (S (S (S (S O)))))))) :: ((S (S
    (S (S O)))) :: ((S O) :: ((S (S (S (S (S (S (S (S (S (S (S (S (S (S
    O)))))))))))))) :: ((S (S (S (S (S (S (S (S O)))))))) :: ((S (S (S (S (S
    (S (S (S (S (S (S (S (S O))))))))))))) :: ((S (S (S (S (S (S
    O)))))) :: ((S (S O)) :: ((S (S (S (S (S (S (S (S (S (S (S
    O))))))))))) :: ((S (S (S (S (S (S (S (S (S (S (S (S (S (S (S
    O))))))))))))))) :: ((S (S (S (S (S (S (S (S (S (S (S (S
    O)))))))))))) :: ((S (S (S (S (S (S (S (S (S O))))))))) :: ((S (S (S (S
    (S (S (S O))))))) :: ((S (S (S O))) :: ((S (S (S (S (S (S (S (S (S (S
    O)))))))))) :: ((S (S (S (S (S O))))) :: (O :: ((S (S (S (S (S (S (S (S
    (S (S (S (S (S (S (S O))))))))))))))) :: ((S (S (S (S (S (S (S (S (S (S
    (S (S O)))))))))))) :: ((S (S (S (S (S (S (S (S O)))))))) :: ((S (S
    O)) :: ((S (S (S (S O)))) :: ((S (S (S (S (S (S (S (S (S
    O))))))))) :: ((S O) :: ((S (S (S (S (S (S (S O))))))) :: ((S (S (S (S (S
    O))))) :: ((S (S (S (S (S (S (S (S (S (S (S O))))))))))) :: ((S (S (S
    O))) :: ((S (S (S (S (S (S (S (S (S (S (S (S (S (S O)))))))))))))) :: ((S
    (S (S (S (S (S (S (S (S (S O)))))))))) :: (O :: ((S (S (S (S (S (S
    O)))))) :: ((S (S (S (S (S (S (S (S (S (S (S (S (S
    O))))))))))))) :: [])))))))))))))))))))))))))))))))))))))))))))))))))))))))))))))))

(** val s2 : nat list **)

let s2 =
  (S (S (S (S (S (S (S (S (S (S (S (S (S (S (S O))))))))))))))) :: ((S
    O) :: ((S (S (S (S (S (S (S (S O)))))))) :: ((S (S (S (S (S (S (S (S (S
    (S (S (S (S (S O)))))))))))))) :: ((S (S (S (S (S (S O)))))) :: ((S (S (S
    (S (S (S (S (S (S (S (S O))))))))))) :: ((S (S (S O))) :: ((S (S (S (S
    O)))) :: ((S (S (S (S (S (S (S (S (S O))))))))) :: ((S (S (S (S (S (S (S
    O))))))) :: ((S (S O)) :: ((S (S (S (S (S (S (S (S (S (S (S (S (S
    O))))))))))))) :: ((S (S (S (S (S (S (S (S (S (S (S (S
    O)))))))))))) :: (O :: ((S (S (S (S (S O))))) :: ((S (S (S (S (S (S (S (S
    (S (S O)))))))))) :: ((S (S (S O))) :: ((S (S (S (S (S (S (S (S (S (S (S
    (S (S O))))))))))))) :: ((S (S (S (S O)))) :: ((S (S (S (S (S (S (S
    O))))))) :: ((S (S (S (S (S (S (S (S (S (S (S (S (S (S (S
    O))))))))))))))) :: ((S (S O)) :: ((S (S (S (S (S (S (S (S
    O)))))))) :: ((S (S (S (S (S (S (S (S (S (S (S (S (S (S
    O)))))))))))))) :: ((S (S (S (S (S (S (S (S (S (S (S (S
    O)))))))))))) :: (O :: ((S O) :: ((S (S (S (S (S (S (S (S (S (S
    O)))))))))) :: ((S (S (S (S (S (S O)))))) :: ((S (S (S (S (S (S (S (S (S
    O))))))))) :: ((S (S (S (S (S (S (S (S (S (S (S O))))))))))) :: ((S (S (S
    (S (S O))))) :: (O :: ((S (S (S (S (S (S (S (S (S (S (S (S (S (S
    O)))))))))))))) :: ((S (S (S (S (S (S (S O))))))) :: ((S (S (S (S (S (S
    (S (S (S (S (S O))))))))))) :: ((S (S (S (S (S (S (S (S (S (S
    O)))))))))) :: ((S (S (S (S O)))) :: ((S (S (S (S (S (S (S (S (S (S (S (S
    (S O))))))))))))) :: ((S O) :: ((S (S (S (S (S O))))) :: ((S (S (S (S (S
    (S (S (S O)))))))) :: ((S (S (S (S (S (S (S (S (S (S (S (S
    O)))))))))))) :: ((S (S (S (S (S (S O)))))) :: ((S (S (S (S (S (S (S (S
    (S O))))))))) :: ((S (S (S O))) :: ((S (S O)) :: ((S (S (S (S (S (S (S (S
    (S (S (S (S (S (S (S O))))))))))))))) :: ((S (S (S (S (S (S (S (S (S (S
    (S (S (S O))))))))))))) :: ((S (S (S (S (S (S (S (S O)))))))) :: ((S (S
    (S (S (S (S (S (S (S (S O)))))))))) :: ((S O) :: ((S (S (S O))) :: ((S (S
    (S (S (S (S (S (S (S (S (S (S (S (S (S O))))))))))))))) :: ((S (S (S (S
    O)))) :: ((S (S O)) :: ((S (S (S (S (S (S (S (S (S (S (S
    O))))))))))) :: ((S (S (S (S (S (S O)))))) :: ((S (S (S (S (S (S (S
    O))))))) :: ((S (S (S (S (S (S (S (S (S (S (S (S
    O)))))))))))) :: (O :: ((S (S (S (S (S O))))) :: ((S (S (S (S (S (S (S (S
    (S (S (S (S (S (S O)))))))))))))) :: ((S (S (S (S (S (S (S (S (S
    O))))))))) :: [])))))))))))))))))))))))))))))))))))))))))))))))))))))))))))))))

(** val s3 : nat list **)

let s3 =
  (S (S (S (S (S (S (S (S (S (S O)))))))))) :: (O :: ((S (S (S (S (S (S (S (S
    (S O))))))))) :: ((S (S (S (S (S (S (S (S (S (S (S (S (S (S
    O)))))))))))))) :: ((S (S (S (S (S (S O)))))) :: ((S (S (S O))) :: ((S (S
    (S (S (S (S (S (S (S (S (S (S (S (S (S O))))))))))))))) :: ((S (S (S (S
    (S O))))) :: ((S O) :: ((S (S (S (S (S (S (S (S (S (S (S (S (S
    O))))))))))))) :: ((S (S (S (S (S (S (S (S (S (S (S (S
    O)))))))))))) :: ((S (S (S (S (S (S (S O))))))) :: ((S (S (S (S (S (S (S
    (S (S (S (S O))))))))))) :: ((S (S (S (S O)))) :: ((S (S O)) :: ((S (S (S
    (S (S (S (S (S O)))))))) :: ((S (S (S (S (S (S (S (S (S (S (S (S (S
    O))))))))))))) :: ((S (S (S (S (S (S (S O))))))) :: (O :: ((S (S (S (S (S
    (S (S (S (S O))))))))) :: ((S (S (S O))) :: ((S (S (S (S O)))) :: ((S (S
    (S (S (S (S O)))))) :: ((S (S (S (S (S (S (S (S (S (S O)))))))))) :: ((S
    (S O)) :: ((S (S (S (S (S (S (S (S O)))))))) :: ((S (S (S (S (S
    O))))) :: ((S (S (S (S (S (S (S (S (S (S (S (S (S (S
    O)))))))))))))) :: ((S (S (S (S (S (S (S (S (S (S (S (S
    O)))))))))))) :: ((S (S (S (S (S (S (S (S (S (S (S O))))))))))) :: ((S (S
    (S (S (S (S (S (S (S (S (S (S (S (S (S O))))))))))))))) :: ((S O) :: ((S
    (S (S (S (S (S (S (S (S (S (S (S (S O))))))))))))) :: ((S (S (S (S (S (S
    O)))))) :: ((S (S (S (S O)))) :: ((S (S (S (S (S (S (S (S (S
    O))))))))) :: ((S (S (S (S (S (S (S (S O)))))))) :: ((S (S (S (S (S (S (S
    (S (S (S (S (S (S (S (S O))))))))))))))) :: ((S (S (S O))) :: (O :: ((S
    (S (S (S (S (S (S (S (S (S (S O))))))))))) :: ((S O) :: ((S (S O)) :: ((S
    (S (S (S (S (S (S (S (S (S (S (S O)))))))))))) :: ((S (S (S (S (S
    O))))) :: ((S (S (S (S (S (S (S (S (S (S O)))))))))) :: ((S (S (S (S (S
    (S (S (S (S (S (S (S (S (S O)))))))))))))) :: ((S (S (S (S (S (S (S
    O))))))) :: ((S O) :: ((S (S (S (S (S (S (S (S (S (S O)))))))))) :: ((S
    (S (S (S (S (S (S (S (S (S (S (S (S O))))))))))))) :: (O :: ((S (S (S (S
    (S (S O)))))) :: ((S (S (S (S (S (S (S (S (S O))))))))) :: ((S (S (S (S
    (S (S (S (S O)))))))) :: ((S (S (S (S (S (S (S O))))))) :: ((S (S (S (S
    O)))) :: ((S (S (S (S (S (S (S (S (S (S (S (S (S (S (S
    O))))))))))))))) :: ((S (S (S (S (S (S (S (S (S (S (S (S (S (S
    O)))))))))))))) :: ((S (S (S O))) :: ((S (S (S (S (S (S (S (S (S (S (S
    O))))))))))) :: ((S (S (S (S (S O))))) :: ((S (S O)) :: ((S (S (S (S (S
    (S (S (S (S (S (S (S
    O)))))))))))) :: [])))))))))))))))))))))))))))))))))))))))))))))))))))))))))))))))

(** val s4 : nat list **)

let s4 =
  (S (S (S (S (S (S (S O))))))) :: ((S (S (S (S (S (S (S (S (S (S (S (S (S
    O))))))))))))) :: ((S (S (S (S (S (S (S (S (S (S (S (S (S (S
    O)))))))))))))) :: ((S (S (S O))) :: (O :: ((S (S (S (S (S (S
    O)))))) :: ((S (S (S (S (S (S (S (S (S O))))))))) :: ((S (S (S (S (S (S
    (S (S (S (S O)))))))))) :: ((S O) :: ((S (S O)) :: ((S (S (S (S (S (S (S
    (S O)))))))) :: ((S (S (S (S (S O))))) :: ((S (S (S (S (S (S (S (S (S (S
    (S O))))))))))) :: ((S (S (S (S (S (S (S (S (S (S (S (S
    O)))))))))))) :: ((S (S (S (S O)))) :: ((S (S (S (S (S (S (S (S (S (S (S
    (S (S (S (S O))))))))))))))) :: ((S (S (S (S (S (S (S (S (S (S (S (S (S
    O))))))))))))) :: ((S (S (S (S (S (S (S (S O)))))))) :: ((S (S (S (S (S
    (S (S (S (S (S (S O))))))))))) :: ((S (S (S (S (S O))))) :: ((S (S (S (S
    (S (S O)))))) :: ((S (S (S (S (S (S (S (S (S (S (S (S (S (S (S
    O))))))))))))))) :: (O :: ((S (S (S O))) :: ((S (S (S (S O)))) :: ((S (S
    (S (S (S (S (S O))))))) :: ((S (S O)) :: ((S (S (S (S (S (S (S (S (S (S
    (S (S O)))))))))))) :: ((S O) :: ((S (S (S (S (S (S (S (S (S (S
    O)))))))))) :: ((S (S (S (S (S (S (S (S (S (S (S (S (S (S
    O)))))))))))))) :: ((S (S (S (S (S (S (S (S (S O))))))))) :: ((S (S (S (S
    (S (S (S (S (S (S O)))))))))) :: ((S (S (S (S (S (S O)))))) :: ((S (S (S
    (S (S (S (S (S (S O))))))))) :: (O :: ((S (S (S (S (S (S (S (S (S (S (S
    (S O)))))))))))) :: ((S (S (S (S (S (S (S (S (S (S (S O))))))))))) :: ((S
    (S (S (S (S (S (S O))))))) :: ((S (S (S (S (S (S (S (S (S (S (S (S (S
    O))))))))))))) :: ((S (S (S (S (S (S (S (S (S (S (S (S (S (S (S
    O))))))))))))))) :: ((S O) :: ((S (S (S O))) :: ((S (S (S (S (S (S (S (S
    (S (S (S (S (S (S O)))))))))))))) :: ((S (S (S (S (S O))))) :: ((S (S
    O)) :: ((S (S (S (S (S (S (S (S O)))))))) :: ((S (S (S (S O)))) :: ((S (S
    (S O))) :: ((S (S (S (S (S (S (S (S (S (S (S (S (S (S (S
    O))))))))))))))) :: (O :: ((S (S (S (S (S (S O)))))) :: ((S (S (S (S (S
    (S (S (S (S (S O)))))))))) :: ((S O) :: ((S (S (S (S (S (S (S (S (S (S (S
    (S (S O))))))))))))) :: ((S (S (S (S (S (S (S (S O)))))))) :: ((S (S (S
    (S (S (S (S (S (S O))))))))) :: ((S (S (S (S O)))) :: ((S (S (S (S (S
    O))))) :: ((S (S (S (S (S (S (S (S (S (S (S O))))))))))) :: ((S (S (S (S
    (S (S (S (S (S (S (S (S O)))))))))))) :: ((S (S (S (S (S (S (S
    O))))))) :: ((S (S O)) :: ((S (S (S (S (S (S (S (S (S (S (S (S (S (S
    O)))))))))))))) :: [])))))))))))))))))))))))))))))))))))))))))))))))))))))))))))))))

(** val s5 : nat list **)

let s5 =
  (S (S O)) :: ((S (S (S (S (S (S (S (S (S (S (S (S O)))))))))))) :: ((S (S
    (S (S O)))) :: ((S O) :: ((S (S (S (S (S (S (S O))))))) :: ((S (S (S (S
    (S (S (S (S (S (S O)))))))))) :: ((S (S (S (S (S (S (S (S (S (S (S
    O))))))))))) :: ((S (S (S (S (S (S O)))))) :: ((S (S (S (S (S (S (S (S
    O)))))))) :: ((S (S (S (S (S O))))) :: ((S (S (S O))) :: ((S (S (S (S (S
    (S (S (S (S (S (S (S (S (S (S O))))))))))))))) :: ((S (S (S (S (S (S (S
    (S (S (S (S (S (S O))))))))))))) :: (O :: ((S (S (S (S (S (S (S (S (S (S
    (S (S (S (S O)))))))))))))) :: ((S (S (S (S (S (S (S (S (S
    O))))))))) :: ((S (S (S (S (S (S (S (S (S (S (S (S (S (S
    O)))))))))))))) :: ((S (S (S (S (S (S (S (S (S (S (S O))))))))))) :: ((S
    (S O)) :: ((S (S (S (S (S (S (S (S (S (S (S (S O)))))))))))) :: ((S (S (S
    (S O)))) :: ((S (S (S (S (S (S (S O))))))) :: ((S (S (S (S (S (S (S (S (S
    (S (S (S (S O))))))))))))) :: ((S O) :: ((S (S (S (S (S
    O))))) :: (O :: ((S (S (S (S (S (S (S (S (S (S (S (S (S (S (S
    O))))))))))))))) :: ((S (S (S (S (S (S (S (S (S (S O)))))))))) :: ((S (S
    (S O))) :: ((S (S (S (S (S (S (S (S (S O))))))))) :: ((S (S (S (S (S (S
    (S (S O)))))))) :: ((S (S (S (S (S (S O)))))) :: ((S (S (S (S
    O)))) :: ((S (S O)) :: ((S O) :: ((S (S (S (S (S (S (S (S (S (S (S
    O))))))))))) :: ((S (S (S (S (S (S (S (S (S (S O)))))))))) :: ((S (S (S
    (S (S (S (S (S (S (S (S (S (S O))))))))))))) :: ((S (S (S (S (S (S (S
    O))))))) :: ((S (S (S (S (S (S (S (S O)))))))) :: ((S (S (S (S (S (S (S
    (S (S (S (S (S (S (S (S O))))))))))))))) :: ((S (S (S (S (S (S (S (S (S
    O))))))))) :: ((S (S (S (S (S (S (S (S (S (S (S (S O)))))))))))) :: ((S
    (S (S (S (S O))))) :: ((S (S (S (S (S (S O)))))) :: ((S (S (S
    O))) :: (O :: ((S (S (S (S (S (S (S (S (S (S (S (S (S (S
    O)))))))))))))) :: ((S (S (S (S (S (S (S (S (S (S (S O))))))))))) :: ((S
    (S (S (S (S (S (S (S O)))))))) :: ((S (S (S (S (S (S (S (S (S (S (S (S
    O)))))))))))) :: ((S (S (S (S (S (S (S O))))))) :: ((S O) :: ((S (S (S (S
    (S (S (S (S (S (S (S (S (S (S O)))))))))))))) :: ((S (S O)) :: ((S (S (S
    (S (S (S (S (S (S (S (S (S (S O))))))))))))) :: ((S (S (S (S (S (S
    O)))))) :: ((S (S (S (S (S (S (S (S (S (S (S (S (S (S (S
    O))))))))))))))) :: (O :: ((S (S (S (S (S (S (S (S (S O))))))))) :: ((S
    (S (S (S (S (S (S (S (S (S O)))))))))) :: ((S (S (S (S O)))) :: ((S (S (S
    (S (S O))))) :: ((S (S (S
    O))) :: [])))))))))))))))))))))))))))))))))))))))))))))))))))))))))))))))

(** val s6 : nat list **)

let s6 =
  (S (S (S (S (S (S (S (S (S (S (S (S O)))))))))))) :: ((S O) :: ((S (S (S (S
    (S (S (S (S (S (S O)))))))))) :: ((S (S (S (S (S (S (S (S (S (S (S (S (S
    (S (S O))))))))))))))) :: ((S (S (S (S (S (S (S (S (S O))))))))) :: ((S
    (S O)) :: ((S (S (S (S (S (S O)))))) :: ((S (S (S (S (S (S (S (S
    O)))))))) :: (O :: ((S (S (S (S (S (S (S (S (S (S (S (S (S
    O))))))))))))) :: ((S (S (S O))) :: ((S (S (S (S O)))) :: ((S (S (S (S (S
    (S (S (S (S (S (S (S (S (S O)))))))))))))) :: ((S (S (S (S (S (S (S
    O))))))) :: ((S (S (S (S (S O))))) :: ((S (S (S (S (S (S (S (S (S (S (S
    O))))))))))) :: ((S (S (S (S (S (S (S (S (S (S O)))))))))) :: ((S (S (S
    (S (S (S (S (S (S (S (S (S (S (S (S O))))))))))))))) :: ((S (S (S (S
    O)))) :: ((S (S O)) :: ((S (S (S (S (S (S (S O))))))) :: ((S (S (S (S (S
    (S (S (S (S (S (S (S O)))))))))))) :: ((S (S (S (S (S (S (S (S (S
    O))))))))) :: ((S (S (S (S (S O))))) :: ((S (S (S (S (S (S O)))))) :: ((S
    O) :: ((S (S (S (S (S (S (S (S (S (S (S (S (S O))))))))))))) :: ((S (S (S
    (S (S (S (S (S (S (S (S (S (S (S O)))))))))))))) :: (O :: ((S (S (S (S (S
    (S (S (S (S (S (S O))))))))))) :: ((S (S (S O))) :: ((S (S (S (S (S (S (S
    (S O)))))))) :: ((S (S (S (S (S (S (S (S (S O))))))))) :: ((S (S (S (S (S
    (S (S (S (S (S (S (S (S (S O)))))))))))))) :: ((S (S (S (S (S (S (S (S (S
    (S (S (S (S (S (S O))))))))))))))) :: ((S (S (S (S (S O))))) :: ((S (S
    O)) :: ((S (S (S (S (S (S (S (S O)))))))) :: ((S (S (S (S (S (S (S (S (S
    (S (S (S O)))))))))))) :: ((S (S (S O))) :: ((S (S (S (S (S (S (S
    O))))))) :: (O :: ((S (S (S (S O)))) :: ((S (S (S (S (S (S (S (S (S (S
    O)))))))))) :: ((S O) :: ((S (S (S (S (S (S (S (S (S (S (S (S (S
    O))))))))))))) :: ((S (S (S (S (S (S (S (S (S (S (S O))))))))))) :: ((S
    (S (S (S (S (S O)))))) :: ((S (S (S (S O)))) :: ((S (S (S O))) :: ((S (S
    O)) :: ((S (S (S (S (S (S (S (S (S (S (S (S O)))))))))))) :: ((S (S (S (S
    (S (S (S (S (S O))))))))) :: ((S (S (S (S (S O))))) :: ((S (S (S (S (S (S
    (S (S (S (S (S (S (S (S (S O))))))))))))))) :: ((S (S (S (S (S (S (S (S
    (S (S O)))))))))) :: ((S (S (S (S (S (S (S (S (S (S (S
    O))))))))))) :: ((S (S (S (S (S (S (S (S (S (S (S (S (S (S
    O)))))))))))))) :: ((S O) :: ((S (S (S (S (S (S (S O))))))) :: ((S (S (S
    (S (S (S O)))))) :: (O :: ((S (S (S (S (S (S (S (S O)))))))) :: ((S (S (S
    (S (S (S (S (S (S (S (S (S (S
    O))))))))))))) :: [])))))))))))))))))))))))))))))))))))))))))))))))))))))))))))))))

(** val s7 : nat list **)

let s7 =
  (S (S (S (S O)))) :: ((S (S (S (S (S (S (S (S (S (S (S O))))))))))) :: ((S
    (S O)) :: ((S (S (S (S (S (S (S (S (S (S (S (S (S (S
    O)))))))))))))) :: ((S (S (S (S (S (S (S (S (S (S (S (S (S (S (S
    O))))))))))))))) :: (O :: ((S (S (S (S (S (S (S (S O)))))))) :: ((S (S (S
    (S (S (S (S (S (S (S (S (S (S O))))))))))))) :: ((S (S (S O))) :: ((S (S
    (S (S (S (S (S (S (S (S (S (S O)))))))))))) :: ((S (S (S (S (S (S (S (S
    (S O))))))))) :: ((S (S (S (S (S (S (S O))))))) :: ((S (S (S (S (S
    O))))) :: ((S (S (S (S (S (S (S (S (S (S O)))))))))) :: ((S (S (S (S (S
    (S O)))))) :: ((S O) :: ((S (S (S (S (S (S (S (S (S (S (S (S (S
    O))))))))))))) :: (O :: ((S (S (S (S (S (S (S (S (S (S (S
    O))))))))))) :: ((S (S (S (S (S (S (S O))))))) :: ((S (S (S (S
    O)))) :: ((S (S (S (S (S (S (S (S (S O))))))))) :: ((S O) :: ((S (S (S (S
    (S (S (S (S (S (S O)))))))))) :: ((S (S (S (S (S (S (S (S (S (S (S (S (S
    (S O)))))))))))))) :: ((S (S (S O))) :: ((S (S (S (S (S O))))) :: ((S (S
    (S (S (S (S (S (S (S (S (S (S O)))))))))))) :: ((S (S O)) :: ((S (S (S (S
    (S (S (S (S (S (S (S (S (S (S (S O))))))))))))))) :: ((S (S (S (S (S (S
    (S (S O)))))))) :: ((S (S (S (S (S (S O)))))) :: ((S O) :: ((S (S (S (S
    O)))) :: ((S (S (S (S (S (S (S (S (S (S (S O))))))))))) :: ((S (S (S (S
    (S (S (S (S (S (S (S (S (S O))))))))))))) :: ((S (S (S (S (S (S (S (S (S
    (S (S (S O)))))))))))) :: ((S (S (S O))) :: ((S (S (S (S (S (S (S
    O))))))) :: ((S (S (S (S (S (S (S (S (S (S (S (S (S (S
    O)))))))))))))) :: ((S (S (S (S (S (S (S (S (S (S O)))))))))) :: ((S (S
    (S (S (S (S (S (S (S (S (S (S (S (S (S O))))))))))))))) :: ((S (S (S (S
    (S (S O)))))) :: ((S (S (S (S (S (S (S (S O)))))))) :: (O :: ((S (S (S (S
    (S O))))) :: ((S (S (S (S (S (S (S (S (S O))))))))) :: ((S (S O)) :: ((S
    (S (S (S (S (S O)))))) :: ((S (S (S (S (S (S (S (S (S (S (S
    O))))))))))) :: ((S (S (S (S (S (S (S (S (S (S (S (S (S
    O))))))))))))) :: ((S (S (S (S (S (S (S (S O)))))))) :: ((S O) :: ((S (S
    (S (S O)))) :: ((S (S (S (S (S (S (S (S (S (S O)))))))))) :: ((S (S (S (S
    (S (S (S O))))))) :: ((S (S (S (S (S (S (S (S (S O))))))))) :: ((S (S (S
    (S (S O))))) :: (O :: ((S (S (S (S (S (S (S (S (S (S (S (S (S (S (S
    O))))))))))))))) :: ((S (S (S (S (S (S (S (S (S (S (S (S (S (S
    O)))))))))))))) :: ((S (S O)) :: ((S (S (S O))) :: ((S (S (S (S (S (S (S
    (S (S (S (S (S
    O)))))))))))) :: [])))))))))))))))))))))))))))))))))))))))))))))))))))))))))))))))

(** val s8 : nat list **)

let s8 =
  (S (S (S (S (S (S (S (S (S (S (S (S (S O))))))))))))) :: ((S (S O)) :: ((S
    (S (S (S (S (S (S (S O)))))))) :: ((S (S (S (S O)))) :: ((S (S (S (S (S
    (S O)))))) :: ((S (S (S (S (S (S (S (S (S (S (S (S (S (S (S
    O))))))))))))))) :: ((S (S (S (S (S (S (S (S (S (S (S O))))))))))) :: ((S
    O) :: ((S (S (S (S (S (S (S (S (S (S O)))))))))) :: ((S (S (S (S (S (S (S
    (S (S O))))))))) :: ((S (S (S O))) :: ((S (S (S (S (S (S (S (S (S (S (S
    (S (S (S O)))))))))))))) :: ((S (S (S (S (S O))))) :: (O :: ((S (S (S (S
    (S (S (S (S (S (S (S (S O)))))))))))) :: ((S (S (S (S (S (S (S
    O))))))) :: ((S O) :: ((S (S (S (S (S (S (S (S (S (S (S (S (S (S (S
    O))))))))))))))) :: ((S (S (S (S (S (S (S (S (S (S (S (S (S
    O))))))))))))) :: ((S (S (S (S (S (S (S (S O)))))))) :: ((S (S (S (S (S
    (S (S (S (S (S O)))))))))) :: ((S (S (S O))) :: ((S (S (S (S (S (S (S
    O))))))) :: ((S (S (S (S O)))) :: ((S (S (S (S (S (S (S (S (S (S (S (S
    O)))))))))))) :: ((S (S (S (S (S O))))) :: ((S (S (S (S (S (S
    O)))))) :: ((S (S (S (S (S (S (S (S (S (S (S O))))))))))) :: (O :: ((S (S
    (S (S (S (S (S (S (S (S (S (S (S (S O)))))))))))))) :: ((S (S (S (S (S (S
    (S (S (S O))))))))) :: ((S (S O)) :: ((S (S (S (S (S (S (S
    O))))))) :: ((S (S (S (S (S (S (S (S (S (S (S O))))))))))) :: ((S (S (S
    (S O)))) :: ((S O) :: ((S (S (S (S (S (S (S (S (S O))))))))) :: ((S (S (S
    (S (S (S (S (S (S (S (S (S O)))))))))))) :: ((S (S (S (S (S (S (S (S (S
    (S (S (S (S (S O)))))))))))))) :: ((S (S O)) :: (O :: ((S (S (S (S (S (S
    O)))))) :: ((S (S (S (S (S (S (S (S (S (S O)))))))))) :: ((S (S (S (S (S
    (S (S (S (S (S (S (S (S O))))))))))))) :: ((S (S (S (S (S (S (S (S (S (S
    (S (S (S (S (S O))))))))))))))) :: ((S (S (S O))) :: ((S (S (S (S (S
    O))))) :: ((S (S (S (S (S (S (S (S O)))))))) :: ((S (S O)) :: ((S
    O) :: ((S (S (S (S (S (S (S (S (S (S (S (S (S (S O)))))))))))))) :: ((S
    (S (S (S (S (S (S O))))))) :: ((S (S (S (S O)))) :: ((S (S (S (S (S (S (S
    (S (S (S O)))))))))) :: ((S (S (S (S (S (S (S (S O)))))))) :: ((S (S (S
    (S (S (S (S (S (S (S (S (S (S O))))))))))))) :: ((S (S (S (S (S (S (S (S
    (S (S (S (S (S (S (S O))))))))))))))) :: ((S (S (S (S (S (S (S (S (S (S
    (S (S O)))))))))))) :: ((S (S (S (S (S (S (S (S (S
    O))))))))) :: (O :: ((S (S (S O))) :: ((S (S (S (S (S O))))) :: ((S (S (S
    (S (S (S O)))))) :: ((S (S (S (S (S (S (S (S (S (S (S
    O))))))))))) :: [])))))))))))))))))))))))))))))))))))))))))))))))))))))))))))))))

(** val sBOXES : nat list list **)

let sBOXES =
  s1 :: (s2 :: (s3 :: (s4 :: (s5 :: (s6 :: (s7 :: (s8 :: [])))))))

(** val b2n : bool -> nat -> nat **)

let b2n b w =
  if b then w else O

(** val nibble_bits : nat -> bool list **)

let nibble_bits n0 =
  (Nat.testbit n0 (S (S (S O)))) :: ((Nat.testbit n0 (S (S O))) :: ((Nat.testbit
                                                                    n0 (S O)) :: (
    (Nat.testbit n0 O) :: [])))

(** val sboxes_apply : nat list list -> bool list -> bool list **)

let rec sboxes_apply boxes bits =
  match boxes with
  | [] -> []
  | bx :: boxes' ->
    (match bits with
     | [] -> []
     | b1 :: l ->
       (match l with
        | [] -> []
        | b2 :: l0 ->
          (match l0 with
           | [] -> []
           | b3 :: l1 ->
             (match l1 with
              | [] -> []
              | b4 :: l2 ->
                (match l2 with
                 | [] -> []
                 | b5 :: l3 ->
                   (match l3 with
                    | [] -> []
                    | b6 :: rest ->
                      let idx0 =
                        add
                          (add
                            (add
                              (add
                                (add
                                  (b2n b1 (S (S (S (S (S (S (S (S (S (S (S (S
                                    (S (S (S (S (S (S (S (S (S (S (S (S (S (S
                                    (S (S (S (S (S (S
                                    O)))))))))))))))))))))))))))))))))
                                  (b2n b6 (S (S (S (S (S (S (S (S (S (S (S (S
                                    (S (S (S (S O))))))))))))))))))
                                (b2n b2 (S (S (S (S (S (S (S (S O))))))))))
                              (b2n b3 (S (S (S (S O)))))) (b2n b4 (S (S O))))
                          (b2n b5 (S O))
                      in
                      app (nibble_bits (nth idx0 bx O))
                        (sboxes_apply boxes' rest)))))))

(** val des_f : bool list -> bool list -> bool list **)

let des_f k r =
  permute p_tbl (sboxes_apply sBOXES (xor_bits (permute e_tbl r) k))

(** val feistel_round :
    (bool list -> bool list -> bool list) -> (bool list * bool list) -> bool
    list -> bool list * bool list **)

let feistel_round f st k =
  ((snd st), (xor_bits (fst st) (f k (snd st))))

(** val feistel :
    (bool list -> bool list -> bool list) -> bool list list -> (bool
    list * bool list) -> bool list * bool list **)

let feistel f ks st =
  fold_left (feistel_round f) ks st

(** val subkeys_aux : nat list -> bool list -> bool list -> bool list list **)

let rec subkeys_aux shifts c d =
  match shifts with
  | [] -> []
  | s :: rest ->
    let c' = rotl s c in
    let d' = rotl s d in
    (permute pC2_tbl (app c' d')) :: (subkeys_aux rest c' d')

(** val des_subkeys : z list -> bool list list **)

let des_subkeys key =
  let kb = permute pC1_tbl (bytes_to_bits key) in
  subkeys_aux key_shifts
    (firstn (S (S (S (S (S (S (S (S (S (S (S (S (S (S (S (S (S (S (S (S (S (S
      (S (S (S (S (S (S O)))))))))))))))))))))))))))) kb)
    (skipn (S (S (S (S (S (S (S (S (S (S (S (S (S (S (S (S (S (S (S (S (S (S
      (S (S (S (S (S (S O)))))))))))))))))))))))))))) kb)

(** val des_core : bool list list -> bool list -> bool list **)

let des_core ks blk =
  let x = permute iP_tbl blk in
  let st =
    feistel des_f ks
      ((firstn (S (S (S (S (S (S (S (S (S (S (S (S (S (S (S (S (S (S (S (S (S
         (S (S (S (S (S (S (S (S (S (S (S O)))))))))))))))))))))))))))))))) x),
      (skipn (S (S (S (S (S (S (S (S (S (S (S (S (S (S (S (S (S (S (S (S (S
        (S (S (S (S (S (S (S (S (S (S (S O)))))))))))))))))))))))))))))))) x))
  in
  permute fP_tbl (app (snd st) (fst st))

(** val des_encrypt_with : bool list list -> z list -> z list **)

let des_encrypt_with ks block =
  bits_to_bytes (des_core ks (bytes_to_bits block))

(** val des_encrypt_block : z list -> z list -> z list **)

let des_encrypt_block key =
  let ks = des_subkeys key in (fun block -> des_encrypt_with ks block)

(** val des_decrypt_block : z list -> z list -> z list **)

let des_decrypt_block key =
  let ks = rev (des_subkeys key) in
  (fun block -> bits_to_bytes (des_core ks (bytes_to_bits block)))

(** val aes_sbox : z list **)

let aes_sbox =
  (Zpos (XI (XI (XO (XO (XO (XI XH))))))) :: ((Zpos (XO (XO (XI (XI (XI (XI
    XH))))))) :: ((Zpos (XI (XI (XI (XO (XI (XI XH))))))) :: ((Zpos (XI (XI
    (XO (XI (XI (XI XH))))))) :: ((Zpos (XO (XI (XO (XO (XI (XI (XI
    XH)))))))) :: ((Zpos (XI (XI (XO (XI (XO (XI XH))))))) :: ((Zpos (XI (XI
    (XI (XI (XO (XI XH))))))) :: ((Zpos (XI (XO (XI (XO (XO (XO (XI
    XH)))))))) :: ((Zpos (XO (XO (XO (XO (XI XH)))))) :: ((Zpos XH) :: ((Zpos
    (XI (XI (XI (XO (XO (XI XH))))))) :: ((Zpos (XI (XI (XO (XI (XO
    XH)))))) :: ((Zpos (XO (XI (XI (XI (XI (XI (XI XH)))))))) :: ((Zpos (XI
    (XI (XI (XO (XI (XO (XI XH)))))))) :: ((Zpos (XI (XI (XO (XI (XO (XI (XO
    XH)))))))) :: ((Zpos (XO (XI (XI (XO (XI (XI XH))))))) :: ((Zpos (XO (XI
    (XO (XI (XO (XO (XI XH)))))))) :: ((Zpos (XO (XI (XO (XO (XO (XO (XO
    XH)))))))) :: ((Zpos (XI (XO (XO (XI (XO (XO (XI XH)))))))) :: ((Zpos (XI
    (XO (XI (XI (XI (XI XH))))))) :: ((Zpos (XO (XI (XO (XI (XI (XI (XI
    XH)))))))) :: ((Zpos (XI (XO (XO (XI (XI (XO XH))))))) :: ((Zpos (XI (XI
    (XI (XO (XO (XO XH))))))) :: ((Zpos (XO (XO (XO (XO (XI (XI (XI
    XH)))))))) :: ((Zpos (XI (XO (XI (XI (XO (XI (XO XH)))))))) :: ((Zpos (XO
    (XO (XI (XO (XI (XO (XI XH)))))))) :: ((Zpos (XO (XI (XO (XO (XO (XI (XO
    XH)))))))) :: ((Zpos (XI (XI (XI (XI (XO (XI (XO XH)))))))) :: ((Zpos (XO
    (XO (XI (XI (XI (XO (XO XH)))))))) :: ((Zpos (XO (XO (XI (XO (XO (XI (XO
    XH)))))))) :: ((Zpos (XO (XI (XO (XO (XI (XI XH))))))) :: ((Zpos (XO (XO
    (XO (XO (XO (XO (XI XH)))))))) :: ((Zpos (XI (XI (XI (XO (XI (XI (XO
    XH)))))))) :: ((Zpos (XI (XO (XI (XI (XI (XI (XI XH)))))))) :: ((Zpos (XI
    (XI (XO (XO (XI (XO (XO XH)))))))) :: ((Zpos (XO (XI (XI (XO (XO
    XH)))))) :: ((Zpos (XO (XI (XI (XO (XI XH)))))) :: ((Zpos (XI (XI (XI (XI
    (XI XH)))))) :: ((Zpos (XI (XI (XI (XO (XI (XI (XI XH)))))))) :: ((Zpos
    (XO (XO (XI (XI (XO (XO (XI XH)))))))) :: ((Zpos (XO (XO (XI (XO (XI
    XH)))))) :: ((Zpos (XI (XO (XI (XO (XO (XI (XO XH)))))))) :: ((Zpos (XI
    (XO (XI (XO (XO (XI (XI XH)))))))) :: ((Zpos (XI (XO (XO (XO (XI (XI (XI
    XH)))))))) :: ((Zpos (XI (XO (XO (XO (XI (XI XH))))))) :: ((Zpos (XO (XO
    (XO (XI (XI (XO (XI XH)))))))) :: ((Zpos (XI (XO (XO (XO (XI
    XH)))))) :: ((Zpos (XI (XO (XI (XO XH))))) :: ((Zpos (XO (XO
    XH))) :: ((Zpos (XI (XI (XI (XO (XO (XO (XI XH)))))))) :: ((Zpos (XI (XI
    (XO (XO (XO XH)))))) :: ((Zpos (XI (XI (XO (XO (XO (XO (XI
    XH)))))))) :: ((Zpos (XO (XO (XO (XI XH))))) :: ((Zpos (XO (XI (XI (XO
    (XI (XO (XO XH)))))))) :: ((Zpos (XI (XO XH))) :: ((Zpos (XO (XI (XO (XI
    (XI (XO (XO XH)))))))) :: ((Zpos (XI (XI XH))) :: ((Zpos (XO (XI (XO (XO
    XH))))) :: ((Zpos (XO (XO (XO (XO (XO (XO (XO XH)))))))) :: ((Zpos (XO
    (XI (XO (XO (XO (XI (XI XH)))))))) :: ((Zpos (XI (XI (XO (XI (XO (XI (XI
    XH)))))))) :: ((Zpos (XI (XI (XI (XO (XO XH)))))) :: ((Zpos (XO (XI (XO
    (XO (XI (XI (XO XH)))))))) :: ((Zpos (XI (XO (XI (XO (XI (XI
    XH))))))) :: ((Zpos (XI (XO (XO XH)))) :: ((Zpos (XI (XI (XO (XO (XO (XO
    (XO XH)))))))) :: ((Zpos (XO (XO (XI (XI (XO XH)))))) :: ((Zpos (XO (XI
    (XO (XI XH))))) :: ((Zpos (XI (XI (XO (XI XH))))) :: ((Zpos (XO (XI (XI
    (XI (XO (XI XH))))))) :: ((Zpos (XO (XI (XO (XI (XI (XO
    XH))))))) :: ((Zpos (XO (XO (XO (XO (XO (XI (XO XH)))))))) :: ((Zpos (XO
    (XI (XO (XO (XI (XO XH))))))) :: ((Zpos (XI (XI (XO (XI (XI
    XH)))))) :: ((Zpos (XO (XI (XI (XO (XI (XO (XI XH)))))))) :: ((Zpos (XI
    (XI (XO (XO (XI (XI (XO XH)))))))) :: ((Zpos (XI (XO (XO (XI (XO
    XH)))))) :: ((Zpos (XI (XI (XO (XO (XO (XI (XI XH)))))))) :: ((Zpos (XI
    (XI (XI (XI (XO XH)))))) :: ((Zpos (XO (XO (XI (XO (XO (XO (XO
    XH)))))))) :: ((Zpos (XI (XI (XO (XO (XI (XO XH))))))) :: ((Zpos (XI (XO
    (XO (XO (XI (XO (XI XH)))))))) :: (Z0 :: ((Zpos (XI (XO (XI (XI (XO (XI
    (XI XH)))))))) :: ((Zpos (XO (XO (XO (XO (XO XH)))))) :: ((Zpos (XO (XO
    (XI (XI (XI (XI (XI XH)))))))) :: ((Zpos (XI (XO (XO (XO (XI (XI (XO
    XH)))))))) :: ((Zpos (XI (XI (XO (XI (XI (XO XH))))))) :: ((Zpos (XO (XI
    (XO (XI (XO (XI XH))))))) :: ((Zpos (XI (XI (XO (XI (XO (XO (XI
    XH)))))))) :: ((Zpos (XO (XI (XI (XI (XI (XI (XO XH)))))))) :: ((Zpos (XI
    (XO (XO (XI (XI XH)))))) :: ((Zpos (XO (XI (XO (XI (XO (XO
    XH))))))) :: ((Zpos (XO (XO (XI (XI (XO (XO XH))))))) :: ((Zpos (XO (XO
    (XO (XI (XI (XO XH))))))) :: ((Zpos (XI (XI (XI (XI (XO (XO (XI
    XH)))))))) :: ((Zpos (XO (XO (XO (XO (XI (XO (XI XH)))))))) :: ((Zpos (XI
    (XI (XI (XI (XO (XI (XI XH)))))))) :: ((Zpos (XO (XI (XO (XI (XO (XI (XO
    XH)))))))) :: ((Zpos (XI (XI (XO (XI (XI (XI (XI XH)))))))) :: ((Zpos (XI
    (XI (XO (XO (XO (XO XH))))))) :: ((Zpos (XI (XO (XI (XI (XO (XO
    XH))))))) :: ((Zpos (XI (XI (XO (XO (XI XH)))))) :: ((Zpos (XI (XO (XI
    (XO (XO (XO (XO XH)))))))) :: ((Zpos (XI (XO (XI (XO (XO (XO
    XH))))))) :: ((Zpos (XI (XO (XO (XI (XI (XI (XI XH)))))))) :: ((Zpos (XO
    XH)) :: ((Zpos (XI (XI (XI (XI (XI (XI XH))))))) :: ((Zpos (XO (XO (XO
    (XO (XI (XO XH))))))) :: ((Zpos (XO (XO (XI (XI (XI XH)))))) :: ((Zpos
    (XI (XI (XI (XI (XI (XO (XO XH)))))))) :: ((Zpos (XO (XO (XO (XI (XO (XI
    (XO XH)))))))) :: ((Zpos (XI (XO (XO (XO (XI (XO XH))))))) :: ((Zpos (XI
    (XI (XO (XO (XO (XI (XO XH)))))))) :: ((Zpos (XO (XO (XO (XO (XO (XO
    XH))))))) :: ((Zpos (XI (XI (XI (XI (XO (XO (XO XH)))))))) :: ((Zpos (XO
    (XI (XO (XO (XI (XO (XO XH)))))))) :: ((Zpos (XI (XO (XI (XI (XI (XO (XO
    XH)))))))) :: ((Zpos (XO (XO (XO (XI (XI XH)))))) :: ((Zpos (XI (XO (XI
    (XO (XI (XI (XI XH)))))))) :: ((Zpos (XO (XO (XI (XI (XI (XI (XO
    XH)))))))) :: ((Zpos (XO (XI (XI (XO (XI (XI (XO XH)))))))) :: ((Zpos (XO
    (XI (XO (XI (XI (XO (XI XH)))))))) :: ((Zpos (XI (XO (XO (XO (XO
    XH)))))) :: ((Zpos (XO (XO (XO (XO XH))))) :: ((Zpos (XI (XI (XI (XI (XI
    (XI (XI XH)))))))) :: ((Zpos (XI (XI (XO (XO (XI (XI (XI
    XH)))))))) :: ((Zpos (XO (XI (XO (XO (XI (XO (XI XH)))))))) :: ((Zpos (XI
    (XO (XI (XI (XO (XO (XI XH)))))))) :: ((Zpos (XO (XO (XI XH)))) :: ((Zpos
    (XI (XI (XO (XO XH))))) :: ((Zpos (XO (XO (XI (XI (XO (XI (XI
    XH)))))))) :: ((Zpos (XI (XI (XI (XI (XI (XO XH))))))) :: ((Zpos (XI (XI
    (XI (XO (XI (XO (XO XH)))))))) :: ((Zpos (XO (XO (XI (XO (XO (XO
    XH))))))) :: ((Zpos (XI (XI (XI (XO XH))))) :: ((Zpos (XO (XO (XI (XO (XO
    (XO (XI XH)))))))) :: ((Zpos (XI (XI (XI (XO (XO (XI (XO
    XH)))))))) :: ((Zpos (XO (XI (XI (XI (XI (XI XH))))))) :: ((Zpos (XI (XO
    (XI (XI (XI XH)))))) :: ((Zpos (XO (XO (XI (XO (XO (XI
    XH))))))) :: ((Zpos (XI (XO (XI (XI (XI (XO XH))))))) :: ((Zpos (XI (XO
    (XO (XI XH))))) :: ((Zpos (XI (XI (XO (XO (XI (XI XH))))))) :: ((Zpos (XO
    (XO (XO (XO (XO (XI XH))))))) :: ((Zpos (XI (XO (XO (XO (XO (XO (XO
    XH)))))))) :: ((Zpos (XI (XI (XI (XI (XO (XO XH))))))) :: ((Zpos (XO (XO
    (XI (XI (XI (XO (XI XH)))))))) :: ((Zpos (XO (XI (XO (XO (XO
    XH)))))) :: ((Zpos (XO (XI (XO (XI (XO XH)))))) :: ((Zpos (XO (XO (XO (XO
    (XI (XO (XO XH)))))))) :: ((Zpos (XO (XO (XO (XI (XO (XO (XO
    XH)))))))) :: ((Zpos (XO (XI (XI (XO (XO (XO XH))))))) :: ((Zpos (XO (XI
    (XI (XI (XO (XI (XI XH)))))))) :: ((Zpos (XO (XO (XO (XI (XI (XI (XO
    XH)))))))) :: ((Zpos (XO (XO (XI (XO XH))))) :: ((Zpos (XO (XI (XI (XI
    (XI (XO (XI XH)))))))) :: ((Zpos (XO (XI (XI (XI (XI (XO
    XH))))))) :: ((Zpos (XI (XI (XO XH)))) :: ((Zpos (XI (XI (XO (XI (XI (XO
    (XI XH)))))))) :: ((Zpos (XO (XO (XO (XO (XO (XI (XI XH)))))))) :: ((Zpos
    (XO (XI (XO (XO (XI XH)))))) :: ((Zpos (XO (XI (XO (XI (XI
    XH)))))) :: ((Zpos (XO (XI (XO XH)))) :: ((Zpos (XI (XO (XO (XI (XO (XO
    XH))))))) :: ((Zpos (XO (XI XH))) :: ((Zpos (XO (XO (XI (XO (XO
    XH)))))) :: ((Zpos (XO (XO (XI (XI (XI (XO XH))))))) :: ((Zpos (XO (XI
    (XO (XO (XO (XO (XI XH)))))))) :: ((Zpos (XI (XI (XO (XO (XI (XO (XI
    XH)))))))) :: ((Zpos (XO (XO (XI (XI (XO (XI (XO XH)))))))) :: ((Zpos (XO
    (XI (XO (XO (XO (XI XH))))))) :: ((Zpos (XI (XO (XO (XO (XI (XO (XO
    XH)))))))) :: ((Zpos (XI (XO (XI (XO (XI (XO (XO XH)))))))) :: ((Zpos (XO
    (XO (XI (XO (XO (XI (XI XH)))))))) :: ((Zpos (XI (XO (XO (XI (XI (XI
    XH))))))) :: ((Zpos (XI (XI (XI (XO (XO (XI (XI XH)))))))) :: ((Zpos (XO
    (XO (XO (XI (XO (XO (XI XH)))))))) :: ((Zpos (XI (XI (XI (XO (XI
    XH)))))) :: ((Zpos (XI (XO (XI (XI (XO (XI XH))))))) :: ((Zpos (XI (XO
    (XI (XI (XO (XO (XO XH)))))))) :: ((Zpos (XI (XO (XI (XO (XI (XO (XI
    XH)))))))) :: ((Zpos (XO (XI (XI (XI (XO (XO XH))))))) :: ((Zpos (XI (XO
    (XO (XI (XO (XI (XO XH)))))))) :: ((Zpos (XO (XO (XI (XI (XO (XI
    XH))))))) :: ((Zpos (XO (XI (XI (XO (XI (XO XH))))))) :: ((Zpos (XO (XO
    (XI (XO (XI (XI (XI XH)))))))) :: ((Zpos (XO (XI (XO (XI (XO (XI (XI
    XH)))))))) :: ((Zpos (XI (XO (XI (XO (XO (XI XH))))))) :: ((Zpos (XO (XI
    (XO (XI (XI (XI XH))))))) :: ((Zpos (XO (XI (XI (XI (XO (XI (XO
    XH)))))))) :: ((Zpos (XO (XO (XO XH)))) :: ((Zpos (XO (XI (XO (XI (XI (XI
    (XO XH)))))))) :: ((Zpos (XO (XO (XO (XI (XI (XI XH))))))) :: ((Zpos (XI
    (XO (XI (XO (XO XH)))))) :: ((Zpos (XO (XI (XI (XI (XO XH)))))) :: ((Zpos
    (XO (XO (XI (XI XH))))) :: ((Zpos (XO (XI (XI (XO (XO (XI (XO
    XH)))))))) :: ((Zpos (XO (XO (XI (XO (XI (XI (XO XH)))))))) :: ((Zpos (XO
    (XI (XI (XO (XO (XO (XI XH)))))))) :: ((Zpos (XO (XO (XO (XI (XO (XI (XI
    XH)))))))) :: ((Zpos (XI (XO (XI (XI (XI (XO (XI XH)))))))) :: ((Zpos (XO
    (XO (XI (XO (XI (XI XH))))))) :: ((Zpos (XI (XI (XI (XI XH))))) :: ((Zpos
    (XI (XI (XO (XI (XO (XO XH))))))) :: ((Zpos (XI (XO (XI (XI (XI (XI (XO
    XH)))))))) :: ((Zpos (XI (XI (XO (XI (XO (XO (XO XH)))))))) :: ((Zpos (XO
    (XI (XO (XI (XO (XO (XO XH)))))))) :: ((Zpos (XO (XO (XO (XO (XI (XI
    XH))))))) :: ((Zpos (XO (XI (XI (XI (XI XH)))))) :: ((Zpos (XI (XO (XI
    (XO (XI (XI (XO XH)))))))) :: ((Zpos (XO (XI (XI (XO (XO (XI
    XH))))))) :: ((Zpos (XO (XO (XO (XI (XO (XO XH))))))) :: ((Zpos (XI
    XH)) :: ((Zpos (XO (XI (XI (XO (XI (XI (XI XH)))))))) :: ((Zpos (XO (XI
    (XI XH)))) :: ((Zpos (XI (XO (XO (XO (XO (XI XH))))))) :: ((Zpos (XI (XO
    (XI (XO (XI XH)))))) :: ((Zpos (XI (XI (XI (XO (XI (XO
    XH))))))) :: ((Zpos (XI (XO (XO (XI (XI (XI (XO XH)))))))) :: ((Zpos (XO
    (XI (XI (XO (XO (XO (XO XH)))))))) :: ((Zpos (XI (XO (XO (XO (XO (XO (XI
    XH)))))))) :: ((Zpos (XI (XO (XI (XI XH))))) :: ((Zpos (XO (XI (XI (XI
    (XI (XO (XO XH)))))))) :: ((Zpos (XI (XO (XO (XO (XO (XI (XI
    XH)))))))) :: ((Zpos (XO (XO (XO (XI (XI (XI (XI XH)))))))) :: ((Zpos (XO
    (XO (XO (XI (XI (XO (XO XH)))))))) :: ((Zpos (XI (XO (XO (XO
    XH))))) :: ((Zpos (XI (XO (XO (XI (XO (XI XH))))))) :: ((Zpos (XI (XO (XO
    (XI (XI (XO (XI XH)))))))) :: ((Zpos (XO (XI (XI (XI (XO (XO (XO
    XH)))))))) :: ((Zpos (XO (XO (XI (XO (XI (XO (XO XH)))))))) :: ((Zpos (XI
    (XI (XO (XI (XI (XO (XO XH)))))))) :: ((Zpos (XO (XI (XI (XI
    XH))))) :: ((Zpos (XI (XI (XI (XO (XO (XO (XO XH)))))))) :: ((Zpos (XI
    (XO (XO (XI (XO (XI (XI XH)))))))) :: ((Zpos (XO (XI (XI (XI (XO (XO (XI
    XH)))))))) :: ((Zpos (XI (XO (XI (XO (XI (XO XH))))))) :: ((Zpos (XO (XO
    (XO (XI (XO XH)))))) :: ((Zpos (XI (XI (XI (XI (XI (XO (XI
    XH)))))))) :: ((Zpos (XO (XO (XI (XI (XO (XO (XO XH)))))))) :: ((Zpos (XI
    (XO (XO (XO (XO (XI (XO XH)))))))) :: ((Zpos (XI (XO (XO (XI (XO (XO (XO
    XH)))))))) :: ((Zpos (XI (XO (XI XH)))) :: ((Zpos (XI (XI (XI (XI (XI (XI
    (XO XH)))))))) :: ((Zpos (XO (XI (XI (XO (XO (XI (XI XH)))))))) :: ((Zpos
    (XO (XI (XO (XO (XO (XO XH))))))) :: ((Zpos (XO (XO (XO (XI (XO (XI
    XH))))))) :: ((Zpos (XI (XO (XO (XO (XO (XO XH))))))) :: ((Zpos (XI (XO
    (XO (XI (XI (XO (XO XH)))))))) :: ((Zpos (XI (XO (XI (XI (XO
    XH)))))) :: ((Zpos (XI (XI (XI XH)))) :: ((Zpos (XO (XO (XO (XO (XI (XI
    (XO XH)))))))) :: ((Zpos (XO (XO (XI (XO (XI (XO XH))))))) :: ((Zpos (XI
    (XI (XO (XI (XI (XI (XO XH)))))))) :: ((Zpos (XO (XI (XI (XO
    XH))))) :: [])))))))))))))))))))))))))))))))))))))))))))))))))))))))))))))))))))))))))))))))))))))))))))))))))))))))))))))))))))))))))))))))))))))))))))))))))))))))))))))))))))))))))))))))))))))))))))))))))))))))))))))))))))))))))))))))))))))))))))))))))))))))))))))))

(** val sub_byte : z -> z **)

let sub_byte x =
  nth (Z.to_nat x) aes_sbox Z0

(** val xor_list : z list -> z list -> z list **)

let rec xor_list a b =
  match a with
  | [] -> []
  | x :: a' ->
    (match b with
     | [] -> []
     | y :: b' -> (Z.coq_lxor x y) :: (xor_list a' b'))

(** val xtime : z -> z **)

let xtime x =
  let y = Z.shiftl x (Zpos XH) in
  if Z.testbit x (Zpos (XI (XI XH)))
  then Z.coq_lxor (Z.coq_land y (Zpos (XI (XI (XI (XI (XI (XI (XI XH)))))))))
         (Zpos (XI (XI (XO (XI XH)))))
  else y

(** val sub_bytes : z list -> z list **)

let sub_bytes s =
  map sub_byte s

(** val shift_rows_tbl : nat list **)

let shift_rows_tbl =
  O :: ((S (S (S (S (S O))))) :: ((S (S (S (S (S (S (S (S (S (S
    O)))))))))) :: ((S (S (S (S (S (S (S (S (S (S (S (S (S (S (S
    O))))))))))))))) :: ((S (S (S (S O)))) :: ((S (S (S (S (S (S (S (S (S
    O))))))))) :: ((S (S (S (S (S (S (S (S (S (S (S (S (S (S
    O)))))))))))))) :: ((S (S (S O))) :: ((S (S (S (S (S (S (S (S
    O)))))))) :: ((S (S (S (S (S (S (S (S (S (S (S (S (S
    O))))))))))))) :: ((S (S O)) :: ((S (S (S (S (S (S (S O))))))) :: ((S (S
    (S (S (S (S (S (S (S (S (S (S O)))))))))))) :: ((S O) :: ((S (S (S (S (S
    (S O)))))) :: ((S (S (S (S (S (S (S (S (S (S (S
    O))))))))))) :: [])))))))))))))))

(** val shift_rows : z list -> z list **)

let shift_rows s =
  map (fun i -> nth i s Z0) shift_rows_tbl

(** val mix_column : z -> z -> z -> z -> z list **)

let mix_column a0 a1 a2 a3 =
  let x3 = fun v -> Z.coq_lxor (xtime v) v in
  (Z.coq_lxor (Z.coq_lxor (xtime a0) (x3 a1)) (Z.coq_lxor a2 a3)) :: (
  (Z.coq_lxor (Z.coq_lxor a0 (xtime a1)) (Z.coq_lxor (x3 a2) a3)) :: (
  (Z.coq_lxor (Z.coq_lxor a0 a1) (Z.coq_lxor (xtime a2) (x3 a3))) :: (
  (Z.coq_lxor (Z.coq_lxor (x3 a0) a1) (Z.coq_lxor a2 (xtime a3))) :: [])))

(** val mix_columns : z list -> z list **)

let rec mix_columns = function
| [] -> []
| a0 :: l ->
  (match l with
   | [] -> []
   | a1 :: l0 ->
     (match l0 with
      | [] -> []
      | a2 :: l1 ->
        (match l1 with
         | [] -> []
         | a3 :: rest -> app (mix_column a0 a1 a2 a3) (mix_columns rest))))

(** val add_round_key : z list -> z list -> z list **)

let add_round_key =
  xor_list

(** val aes_rcon : z list **)

let aes_rcon =
  (Zpos XH) :: ((Zpos (XO XH)) :: ((Zpos (XO (XO XH))) :: ((Zpos (XO (XO (XO
    XH)))) :: ((Zpos (XO (XO (XO (XO XH))))) :: ((Zpos (XO (XO (XO (XO (XO
    XH)))))) :: ((Zpos (XO (XO (XO (XO (XO (XO XH))))))) :: ((Zpos (XO (XO
    (XO (XO (XO (XO (XO XH)))))))) :: ((Zpos (XI (XI (XO (XI
    XH))))) :: ((Zpos (XO (XI (XI (XO (XI XH)))))) :: [])))))))))

(** val next_round_key : z -> z list -> z list **)

let next_round_key rc rk =
  let w0 = firstn (S (S (S (S O)))) rk in
  let w1 = firstn (S (S (S (S O)))) (skipn (S (S (S (S O)))) rk) in
  let w2 =
    firstn (S (S (S (S O)))) (skipn (S (S (S (S (S (S (S (S O)))))))) rk)
  in
  let w3 =
    firstn (S (S (S (S O))))
      (skipn (S (S (S (S (S (S (S (S (S (S (S (S O)))))))))))) rk)
  in
  let t =
    match w3 with
    | [] -> []
    | b0 :: l ->
      (match l with
       | [] -> []
       | b1 :: l0 ->
         (match l0 with
          | [] -> []
          | b2 :: l1 ->
            (match l1 with
             | [] -> []
             | b3 :: l2 ->
               (match l2 with
                | [] ->
                  (Z.coq_lxor (sub_byte b1) rc) :: ((sub_byte b2) :: (
                    (sub_byte b3) :: ((sub_byte b0) :: [])))
                | _ :: _ -> []))))
  in
  let w0' = xor_list w0 t in
  let w1' = xor_list w1 w0' in
  let w2' = xor_list w2 w1' in
  let w3' = xor_list w3 w2' in app w0' (app w1' (app w2' w3'))

(** val expand_aux : z list -> z list -> z list list **)

let rec expand_aux rcs rk =
  match rcs with
  | [] -> []
  | rc :: rcs' ->
    let rk' = next_round_key rc rk in rk' :: (expand_aux rcs' rk')

(** val aes128_round_keys : z list -> z list list **)

let aes128_round_keys key =
  key :: (expand_aux aes_rcon key)

(** val aes_round : z list -> z list -> z list **)

let aes_round s rk =
  add_round_key (mix_columns (shift_rows (sub_bytes s))) rk

(** val aes_final_round : z list -> z list -> z list **)

let aes_final_round s rk =
  add_round_key (shift_rows (sub_bytes s)) rk

(** val aes_rounds : z list -> z list list -> z list **)

let rec aes_rounds s = function
| [] -> s
| rk :: rks' ->
  (match rks' with
   | [] -> aes_final_round s rk
   | _ :: _ -> aes_rounds (aes_round s rk) rks')

(** val aes128_encrypt_with : z list list -> z list -> z list **)

let aes128_encrypt_with rks block =
  match rks with
  | [] -> block
  | rk0 :: rks' -> aes_rounds (add_round_key block rk0) rks'

(** val aes128_encrypt_block : z list -> z list -> z list **)

let aes128_encrypt_block key =
  let rks = aes128_round_keys key in
  (fun block -> aes128_encrypt_with rks block)

(** val xor_bytes : z list -> z list -> z list **)

let rec xor_bytes a b =
  match a with
  | [] -> []
  | x :: a' ->
    (match b with
     | [] -> []
     | y :: b' -> (Z.coq_lxor x y) :: (xor_bytes a' b'))

(** val cbc_encrypt_aux :
    (z list -> z list) -> nat -> nat -> z list -> z list -> z list **)

let rec cbc_encrypt_aux e bs fuel prev pt =
  match fuel with
  | O -> []
  | S fuel' ->
    (match pt with
     | [] -> []
     | _ :: _ ->
       let c = e (xor_bytes (firstn bs pt) prev) in
       app c (cbc_encrypt_aux e bs fuel' c (skipn bs pt)))

(** val cbc_encrypt :
    (z list -> z list) -> nat -> z list -> z list -> z list **)

let cbc_encrypt e bs iv pt =
  cbc_encrypt_aux e bs (length pt) iv pt

(** val cbc_decrypt_aux :
    (z list -> z list) -> nat -> nat -> z list -> z list -> z list **)

let rec cbc_decrypt_aux d bs fuel prev ct =
  match fuel with
  | O -> []
  | S fuel' ->
    (match ct with
     | [] -> []
     | _ :: _ ->
       let c = firstn bs ct in
       app (xor_bytes (d c) prev) (cbc_decrypt_aux d bs fuel' c (skipn bs ct)))

(** val cbc_decrypt :
    (z list -> z list) -> nat -> z list -> z list -> z list **)

let cbc_decrypt d bs iv ct =
  cbc_decrypt_aux d bs (length ct) iv ct

(** val cfb_encrypt_aux :
    (z list -> z list) -> nat -> nat -> z list -> z list -> z list **)

let rec cfb_encrypt_aux e bs fuel prev pt =
  match fuel with
  | O -> []
  | S fuel' ->
    (match pt with
     | [] -> []
     | _ :: _ ->
       let c = xor_bytes (firstn bs pt) (e prev) in
       app c (cfb_encrypt_aux e bs fuel' c (skipn bs pt)))

(** val cfb_encrypt :
    (z list -> z list) -> nat -> z list -> z list -> z list **)

let cfb_encrypt e bs iv pt =
  cfb_encrypt_aux e bs (length pt) iv pt

(** val cfb_decrypt_aux :
    (z list -> z list) -> nat -> nat -> z list -> z list -> z list **)

let rec cfb_decrypt_aux e bs fuel prev ct =
  match fuel with
  | O -> []
  | S fuel' ->
    (match ct with
     | [] -> []
     | _ :: _ ->
       let c = firstn bs ct in
       app (xor_bytes c (e prev)) (cfb_decrypt_aux e bs fuel' c (skipn bs ct)))

(** val cfb_decrypt :
    (z list -> z list) -> nat -> z list -> z list -> z list **)

let cfb_decrypt e bs iv ct =
  cfb_decrypt_aux e bs (length ct) iv ct

type priv_alg =
| PNoPriv
| PDes
| PAes

type priv_key = { pk_alg : priv_alg; pk_key : bytes; pk_pre_iv : bytes;
                  pk_salt : z }

(** val priv_new : z -> priv_key res **)

let priv_new code =
  let a = Z.coq_land code pRIV_KT_ALG_MASK in
  if Z.eqb a nO_PRIV
  then Ok { pk_alg = PNoPriv; pk_key = []; pk_pre_iv = []; pk_salt = Z0 }
  else if Z.eqb a pRIV_DES
       then Ok { pk_alg = PDes; pk_key = []; pk_pre_iv = []; pk_salt = Z0 }
       else if Z.eqb a pRIV_AES128
            then Ok { pk_alg = PAes; pk_key = []; pk_pre_iv = []; pk_salt =
                   Z0 }
            else Err InvalidVersion

(** val has_priv : priv_alg -> bool **)

let has_priv = function
| PNoPriv -> false
| _ -> true

(** val priv_as_localized : priv_key -> bytes -> z -> priv_key res **)

let priv_as_localized k key seed =
  match k.pk_alg with
  | PNoPriv -> Ok k
  | PDes ->
    if Z.ltb (len key) dES_KEY_LENGTH
    then Err InvalidKey
    else Ok { pk_alg = PDes; pk_key = (takez dES_ENC_KEY_LENGTH key);
           pk_pre_iv =
           (takez (Z.sub dES_KEY_LENGTH dES_ENC_KEY_LENGTH)
             (dropz dES_ENC_KEY_LENGTH key)); pk_salt = (wrap32 seed) }
  | PAes ->
    if Z.ltb (len key) aES_KEY_LENGTH
    then Err InvalidKey
    else Ok { pk_alg = PAes; pk_key = (takez aES_KEY_LENGTH key); pk_pre_iv =
           []; pk_salt = (wrap64 seed) }

(** val be0 : z -> bytes **)

let be0 v =
  (Z.modulo (Z.shiftr v (Zpos (XO (XO (XO (XI XH)))))) (Zpos (XO (XO (XO (XO
    (XO (XO (XO (XO XH)))))))))) :: ((Z.modulo
                                       (Z.shiftr v (Zpos (XO (XO (XO (XO
                                         XH)))))) (Zpos (XO (XO (XO (XO (XO
                                       (XO (XO (XO XH)))))))))) :: ((Z.modulo
                                                                    (Z.shiftr
                                                                    v (Zpos
                                                                    (XO (XO
                                                                    (XO
                                                                    XH)))))
                                                                    (Zpos (XO
                                                                    (XO (XO
                                                                    (XO (XO
                                                                    (XO (XO
                                                                    (XO
                                                                    XH)))))))))) :: (
    (Z.modulo v (Zpos (XO (XO (XO (XO (XO (XO (XO (XO XH)))))))))) :: [])))

(** val be64 : z -> bytes **)

let be64 v =
  app
    (be0
      (Z.modulo (Z.shiftr v (Zpos (XO (XO (XO (XO (XO XH))))))) (Zpos (XO (XO
        (XO (XO (XO (XO (XO (XO (XO (XO (XO (XO (XO (XO (XO (XO (XO (XO (XO
        (XO (XO (XO (XO (XO (XO (XO (XO (XO (XO (XO (XO (XO
        XH)))))))))))))))))))))))))))))))))))
    (be0
      (Z.modulo v (Zpos (XO (XO (XO (XO (XO (XO (XO (XO (XO (XO (XO (XO (XO
        (XO (XO (XO (XO (XO (XO (XO (XO (XO (XO (XO (XO (XO (XO (XO (XO (XO
        (XO (XO XH)))))))))))))))))))))))))))))))))))

(** val zeros : nat -> bytes **)

let rec zeros = function
| O -> []
| S k -> Z0 :: (zeros k)

(** val padded_plaintext : z -> scoped -> bytes res **)

let padded_plaintext block s =
  bind (push empty_buffer (zeros (Z.to_nat block))) (fun b ->
    bind (push_scoped b s) (fun b0 ->
      let scoped_len = Z.sub (blen b0) block in
      let rem = Z.modulo scoped_len block in
      let padded_len =
        if Z.ltb Z0 rem
        then Z.sub (Z.add scoped_len block) rem
        else scoped_len
      in
      slice_to b0.data padded_len))

(** val priv_encrypt :
    priv_key -> scoped -> z -> z -> priv_key * (bytes * bytes) res **)

let priv_encrypt k s boots time =
  match k.pk_alg with
  | PNoPriv -> (k, (Err NotImplemented))
  | PDes ->
    let pp = app (be0 (wrap32 boots)) (be0 k.pk_salt) in
    let k' = { pk_alg = PDes; pk_key = k.pk_key; pk_pre_iv = k.pk_pre_iv;
      pk_salt = (wrap32 (Z.add k.pk_salt (Zpos XH))) }
    in
    let iv =
      app (xor_bytes pp k.pk_pre_iv)
        (zeros
          (sub (S (S (S (S (S (S (S (S O))))))))
            (Nat.min (S (S (S (S (S (S (S (S O)))))))) (length k.pk_pre_iv))))
    in
    (k',
    (bind (padded_plaintext dES_BLOCK_SIZE s) (fun pt -> Ok
      ((cbc_encrypt (des_encrypt_block k.pk_key) (S (S (S (S (S (S (S (S
         O)))))))) iv pt), pp))))
  | PAes ->
    let pp =
      app (be0 (wrap32 boots)) (app (be0 (wrap32 time)) (be64 k.pk_salt))
    in
    let k' = { pk_alg = PAes; pk_key = k.pk_key; pk_pre_iv = k.pk_pre_iv;
      pk_salt = (wrap64 (Z.add k.pk_salt (Zpos XH))) }
    in
    (k',
    (bind (padded_plaintext aES_BLOCK_SIZE s) (fun pt -> Ok
      ((cfb_encrypt (aes128_encrypt_block k.pk_key) (S (S (S (S (S (S (S (S
         (S (S (S (S (S (S (S (S O)))))))))))))))) pp pt),
      (dropz (Zpos (XO (XO (XO XH)))) pp)))))

(** val priv_decrypt_bytes : priv_key -> bytes -> usm -> bytes res **)

let priv_decrypt_bytes k ct u =
  match k.pk_alg with
  | PNoPriv -> Err NotImplemented
  | PDes ->
    let x =
      xor_bytes (takez (Zpos (XO (XO (XO XH)))) u.u_privacy_params)
        k.pk_pre_iv
    in
    let iv = app x (zeros (sub (S (S (S (S (S (S (S (S O)))))))) (length x)))
    in
    if (||) (negb (Z.eqb (Z.modulo (len ct) (Zpos (XO (XO (XO XH))))) Z0))
         (Z.ltb bUF_MAX_SIZE (len ct))
    then Err InvalidKey
    else Ok
           (cbc_decrypt (des_decrypt_block k.pk_key) (S (S (S (S (S (S (S (S
             O)))))))) iv ct)
  | PAes ->
    if negb
         (Z.eqb (len u.u_privacy_params)
           (Z.sub aES_KEY_LENGTH (Zpos (XO (XO (XO XH))))))
    then Err InvalidKey
    else let iv =
           app (be0 (wrap32 u.u_engine_boots))
             (app (be0 (wrap32 u.u_engine_time)) u.u_privacy_params)
         in
         if Z.ltb bUF_MAX_SIZE (len ct)
         then Err InvalidKey
         else Ok
                (cfb_decrypt (aes128_encrypt_block k.pk_key) (S (S (S (S (S
                  (S (S (S (S (S (S (S (S (S (S (S O)))))))))))))))) iv ct)

(** val priv_decrypt : priv_key -> bytes -> usm -> scoped res **)

let priv_decrypt k ct u =
  bind (priv_decrypt_bytes k ct u) scoped_decode

type v3sock = { engine_id : bytes; engine_boots : z; engine_time : z;
                user_name : bytes; auth : auth_key; privk : priv_key;
                msg_id : z; request_id : z }

(** val next_id : z -> z **)

let next_id rnd =
  Z.coq_land rnd mAX_REQUEST_ID

(** val install_keys :
    z -> bytes -> z -> bytes -> bytes -> z -> (auth_key * priv_key) res **)

let install_keys auth_alg0 auth_key_m priv_alg0 priv_key_m eid seed =
  bind (auth_new auth_alg0) (fun a0 ->
    bind (as_key_type a0 auth_alg0 auth_key_m eid) (fun a ->
      bind (priv_new priv_alg0) (fun p0 ->
        if has_priv p0.pk_alg
        then bind (auth_new auth_alg0) (fun pa0 ->
               bind (as_key_type pa0 priv_alg0 priv_key_m eid) (fun pa ->
                 bind (priv_as_localized p0 pa.ak_key seed) (fun p -> Ok (a,
                   p))))
        else Ok (a, p0))))

(** val v3_new :
    bytes -> bytes -> z -> bytes -> z -> bytes -> z -> v3sock res **)

let v3_new eid user auth_alg0 auth_key_m priv_alg0 priv_key_m seed =
  bind (install_keys auth_alg0 auth_key_m priv_alg0 priv_key_m eid seed)
    (fun ab ->
    let (a, p) = ab in
    Ok { engine_id = eid; engine_boots = Z0; engine_time = Z0; user_name =
    user; auth = a; privk = p; msg_id = Z0; request_id = Z0 })

(** val v3_set_keys :
    v3sock -> bytes -> z -> bytes -> z -> bytes -> z -> v3sock res **)

let v3_set_keys s user auth_alg0 auth_key_m priv_alg0 priv_key_m seed =
  bind
    (install_keys auth_alg0 auth_key_m priv_alg0 priv_key_m s.engine_id seed)
    (fun ab ->
    let (a, p) = ab in
    Ok { engine_id = s.engine_id; engine_boots = s.engine_boots;
    engine_time = s.engine_time; user_name = user; auth = a; privk = p;
    msg_id = s.msg_id; request_id = s.request_id })

(** val with_priv_msgid : v3sock -> priv_key -> z -> v3sock **)

let with_priv_msgid s k mid =
  { engine_id = s.engine_id; engine_boots = s.engine_boots; engine_time =
    s.engine_time; user_name = s.user_name; auth = s.auth; privk = k;
    msg_id = mid; request_id = s.request_id }

(** val v3_message : v3sock -> pdu -> z -> bytes -> msgdata -> v3msg **)

let v3_message s p mid pp d =
  let flag_report =
    match p with
    | PGetRequest g -> (match g.g_vars with
                        | [] -> true
                        | _ :: _ -> false)
    | _ -> false
  in
  { m_msg_id = mid; m_flag_auth = (has_auth s.auth.ak_alg); m_flag_priv =
  (has_priv s.privk.pk_alg); m_flag_report = flag_report; m_usm =
  { u_engine_id = s.engine_id; u_engine_boots = s.engine_boots;
  u_engine_time = s.engine_time; u_user_name = s.user_name; u_auth_params =
  (placeholder s.auth.ak_alg); u_privacy_params = pp }; m_data = d }

(** val v3_finish : v3sock -> v3msg -> bytes res **)

let v3_finish s m =
  bind (push_v3 empty_buffer m) (fun b ->
    alg_sign s.auth b.data (get_bookmark b))

(** val v3_push_pdu : v3sock -> pdu -> z -> v3sock * bytes res **)

let v3_push_pdu s p rnd_msg =
  let sc = { s_engine_id = s.engine_id; s_pdu = p } in
  let mid = next_id rnd_msg in
  if has_priv s.privk.pk_alg
  then let (k', r) = priv_encrypt s.privk sc s.engine_boots s.engine_time in
       (match r with
        | Ok a ->
          let (ct, pp) = a in
          ((with_priv_msgid s k' mid),
          (v3_finish s (v3_message s p mid pp (Encrypted ct))))
        | Err e -> ((with_priv_msgid s k' s.msg_id), (Err e))
        | Panic -> ((with_priv_msgid s k' s.msg_id), Panic))
  else ((with_priv_msgid s s.privk mid),
         (v3_finish s (v3_message s p mid [] (Plaintext sc))))

(** val with_request_id : v3sock -> z -> v3sock **)

let with_request_id s rid =
  { engine_id = s.engine_id; engine_boots = s.engine_boots; engine_time =
    s.engine_time; user_name = s.user_name; auth = s.auth; privk = s.privk;
    msg_id = s.msg_id; request_id = rid }

(** val v3_unwrap : v3sock -> v3msg -> v3sock * pdu option **)

let v3_unwrap s m =
  match m.m_data with
  | Plaintext x ->
    let u = m.m_usm in
    if (&&)
         ((&&)
           ((&&) (all_eqb s.user_name u.u_user_name)
             ((||) (Z.eqb (len s.engine_id) Z0)
               (all_eqb u.u_engine_id s.engine_id)))
           (Z.eqb s.msg_id m.m_msg_id)) (pdu_check x.s_pdu s.request_id)
    then ({ engine_id =
           (if Z.eqb (len s.engine_id) Z0 then u.u_engine_id else s.engine_id);
           engine_boots = u.u_engine_boots; engine_time = u.u_engine_time;
           user_name = s.user_name; auth = s.auth; privk = s.privk; msg_id =
           s.msg_id; request_id = s.request_id }, (Some x.s_pdu))
    else (s, None)
  | Encrypted ct ->
    (match priv_decrypt s.privk ct m.m_usm with
     | Ok x ->
       let u = m.m_usm in
       if (&&)
            ((&&)
              ((&&) (all_eqb s.user_name u.u_user_name)
                ((||) (Z.eqb (len s.engine_id) Z0)
                  (all_eqb u.u_engine_id s.engine_id)))
              (Z.eqb s.msg_id m.m_msg_id)) (pdu_check x.s_pdu s.request_id)
       then ({ engine_id =
              (if Z.eqb (len s.engine_id) Z0
               then u.u_engine_id
               else s.engine_id); engine_boots = u.u_engine_boots;
              engine_time = u.u_engine_time; user_name = s.user_name; auth =
              s.auth; privk = s.privk; msg_id = s.msg_id; request_id =
              s.request_id }, (Some x.s_pdu))
       else (s, None)
     | _ -> (s, None))

(** val v3_unwrap_panics : v3sock -> v3msg -> bool **)

let v3_unwrap_panics s m =
  match m.m_data with
  | Plaintext _ -> false
  | Encrypted ct ->
    (match priv_decrypt s.privk ct m.m_usm with
     | Panic -> true
     | _ -> false)

(** val v3_recv_loop : v3sock -> bytes list -> v3sock * pdu recv_result **)

let rec v3_recv_loop s = function
| [] -> (s, TimedOut)
| d :: rest ->
  (match v3_decode d with
   | Ok m ->
     if v3_unwrap_panics s m
     then (s, Crashed)
     else let (s', o) = v3_unwrap s m in
          (match o with
           | Some p -> (s', (Delivered (p, rest)))
           | None -> v3_recv_loop s' rest)
   | Err e -> (s, (Failed ((err_to_exc e), rest)))
   | Panic -> (s, Crashed))

(* line protocol:  hist <q> <t0> <g1,g2,...>   ->  <releases> | <sleeps>
                   ctor <0|1 rps_le_zero> <q>    ->  refused | ok <delta>            *)
let handle = function
  | ["hist"; q; t0; gaps] ->
    let q = z_of_string q and t0 = z_of_string t0 and gaps = zlist_of_string gaps in
    (match init false q with
     | None -> "refused"
     | Some st -> string_of_zlist (history st t0 gaps) ^ " | " ^ string_of_zlist (history_sleeps st t0 gaps))
  | ["ctor"; b; q] ->
    (match init (b = "1") (z_of_string q) with
     | None -> "refused"
     | Some st -> "ok " ^ string_of_z st._delta)
  | _ -> "DRIVER-ERROR bad command"
let () = main_loop handle

(* Common glue between text lines and the extracted datatypes (appended after `open <Model>`). *)
let rec pos_of_int n =
  if n = 1 then XH else if n land 1 = 0 then XO (pos_of_int (n lsr 1)) else XI (pos_of_int (n lsr 1))
let z_of_int n = if n = 0 then Z0 else if n > 0 then Zpos (pos_of_int n) else Zneg (pos_of_int (-n))
let rec int_of_pos = function XH -> 1 | XO p -> 2 * int_of_pos p | XI p -> 2 * int_of_pos p + 1
let int_of_z = function Z0 -> 0 | Zpos p -> int_of_pos p | Zneg p -> - (int_of_pos p)
let ten = z_of_int 10
let z_of_string s =
  let s = String.trim s in
  let neg = String.length s > 0 && s.[0] = '-' in
  let start = if neg || (String.length s > 0 && s.[0] = '+') then 1 else 0 in
  let acc = ref Z0 in
  for i = start to String.length s - 1 do
    let d = Char.code s.[i] - 48 in
    if d < 0 || d > 9 then failwith ("bad integer " ^ s);
    acc := Z.add (Z.mul !acc ten) (z_of_int d)
  done;
  if neg then Z.opp !acc else !acc
let string_of_z z =
  let neg, z = (match z with Zneg p -> true, Zpos p | _ -> false, z) in
  let rec go z acc =
    match z with
    | Z0 -> acc
    | _ -> let (q, r) = Z.div_eucl z ten in go q (string_of_int (int_of_z r) ^ acc)
  in
  let s = go z "" in
  let s = if s = "" then "0" else s in
  if neg then "-" ^ s else s
let hexval c = match c with
  | '0'..'9' -> Char.code c - 48 | 'a'..'f' -> Char.code c - 87 | 'A'..'F' -> Char.code c - 55
  | _ -> failwith "bad hex"
(* small integers 0..255 are shared *)
let byte_tbl = Array.init 256 z_of_int
let bytes_of_hex s =
  let s = if s = "-" then "" else s in
  let n = String.length s / 2 in
  let rec go i acc = if i < 0 then acc else go (i - 1) (byte_tbl.(hexval s.[2*i] * 16 + hexval s.[2*i+1]) :: acc) in
  go (n - 1) []
let hex_of_bytes l =
  let b = Buffer.create 64 in
  List.iter (fun z -> Buffer.add_string b (Printf.sprintf "%02x" (int_of_z z))) l;
  if Buffer.length b = 0 then "-" else Buffer.contents b
let rec nat_of_int n = if n <= 0 then O else S (nat_of_int (n - 1))
let rec int_of_nat = function O -> 0 | S n -> 1 + int_of_nat n
let split_on c s = if s = "" || s = "-" then [] else String.split_on_char c s
let zlist_of_string s = List.map z_of_string (split_on ',' s)
let string_of_zlist l = if l = [] then "-" else String.concat "," (List.map string_of_z l)
let main_loop handle =
  try
    while true do
      let line = input_line stdin in
      let out = (try handle (String.split_on_char ' ' (String.trim line))
                 with Failure m -> "DRIVER-ERROR " ^ m | Not_found -> "DRIVER-ERROR not_found"
                    | Stack_overflow -> "DRIVER-ERROR stack_overflow") in
      print_string out; print_char (Char.chr 10); flush stdout
    done
  with End_of_file -> ()

(* Model side of the codec line protocol (same commands and canonical output as harness/rs/harness_main.rs). *)
let ename = function
  | Incomplete -> "Incomplete" | UnexpectedTag -> "UnexpectedTag" | InvalidTagFormat -> "InvalidTagFormat"
  | UnknownPdu -> "UnknownPdu" | InvalidPdu -> "InvalidPdu" | InvalidData -> "InvalidData"
  | InvalidKey -> "InvalidKey" | UnsupportedTag -> "UnsupportedTag" | TrailingData -> "TrailingData"
  | InvalidVersion -> "InvalidVersion" | OutOfBuffer -> "OutOfBuffer" | NotImplemented -> "NotImplemented"
  | NoSuchInstance -> "NoSuchInstance" | SocketError -> "SocketError" | WouldBlock -> "WouldBlock"
  | ConnectionRefused -> "ConnectionRefused" | UnknownSecurityModel -> "UnknownSecurityModel"
  | AuthenticationFailed -> "AuthenticationFailed"

let exc_name = function
  | ESnmpError -> "SnmpError" | EDecode -> "SnmpDecodeError" | EEncode -> "SnmpEncodeError"
  | EAuth -> "SnmpAuthError" | ENoSuchInstance -> "NoSuchInstance" | EValue -> "ValueError"
  | ETimeout -> "TimeoutError" | EBlockingIO -> "BlockingIOError" | EOSError -> "OSError"
  | ENotImplemented -> "NotImplementedError" | ERuntime -> "RuntimeError"
  | EStopAsyncIteration -> "StopAsyncIteration" | EStopIteration -> "StopIteration" | EException -> "Exception"

let b01 b = if b then "1" else "0"
let sz = string_of_z
let hx = hex_of_bytes
let text l = let b = Buffer.create 16 in List.iter (fun z -> Buffer.add_char b (Char.chr ((int_of_z z) land 255))) l; Buffer.contents b

let render_real = function
  | RZero -> "real:zero"
  | RBin (neg, m, e) -> "real:bin:" ^ b01 neg ^ ":" ^ sz m ^ ":" ^ sz e
  | RInt v -> "real:int:" ^ sz v
  | RDec t -> "real:dec:" ^ hx t
  | RPlusInf -> "real:+inf" | RMinusInf -> "real:-inf" | RNaN -> "real:nan" | RMinusZero -> "real:-zero"

let render_value = function
  | VBool b -> "bool:" ^ b01 b
  | VInt z -> "int:" ^ sz z
  | VNull -> "null"
  | VOctetString b -> "os:" ^ hx b
  | VOid b -> "oid:" ^ hx b
  | VObjectDescriptor b -> "od:" ^ hx b
  | VReal r -> render_real r
  | VIpAddress (a, b, c, d) -> "ip:" ^ text (ip_text a b c d)
  | VCounter32 z -> "c32:" ^ sz z
  | VGauge32 z -> "g32:" ^ sz z
  | VTimeTicks z -> "tt:" ^ sz z
  | VOpaque b -> "op:" ^ hx b
  | VCounter64 z -> "c64:" ^ sz z
  | VUInteger32 z -> "u32:" ^ sz z
  | VNoSuchObject -> "nso" | VNoSuchInstance -> "nsi" | VEndOfMibView -> "eomv"

let render_oids l = String.concat "," (List.map hx l)

let render_pdu = function
  | PGetRequest g -> "get(" ^ sz g.g_request_id ^ ";" ^ render_oids g.g_vars ^ ")"
  | PGetNextRequest g -> "getnext(" ^ sz g.g_request_id ^ ";" ^ render_oids g.g_vars ^ ")"
  | PGetBulkRequest g -> "bulk(" ^ sz g.gb_request_id ^ "," ^ sz g.gb_non_repeaters ^ "," ^ sz g.gb_max_repetitions
                         ^ ";" ^ render_oids g.gb_vars ^ ")"
  | PGetResponse r ->
    "resp(" ^ sz r.gr_request_id ^ "," ^ sz r.gr_error_status ^ "," ^ sz r.gr_error_index ^ ";"
    ^ String.concat "," (List.map (fun v -> hx v.vb_oid ^ "=" ^ render_value v.vb_value) r.gr_vars) ^ ")"
  | PReport raw -> "report(" ^ hx raw ^ ")"

let render_usm u =
  String.concat "," [hx u.u_engine_id; sz u.u_engine_boots; sz u.u_engine_time; hx u.u_user_name;
                     hx u.u_auth_params; hx u.u_privacy_params]
let render_scoped s = "plain(" ^ hx s.s_engine_id ^ "," ^ render_pdu s.s_pdu ^ ")"

let res r f = match r with Ok a -> f a | Err e -> "ERR " ^ ename e | Panic -> "PANIC"
let typed r f = res r (fun (rest, v) -> "OK " ^ f v ^ " rest=" ^ hx rest)

let parse_oids s = List.map bytes_of_hex (split_on ',' s)
let build_pdu spec =
  match String.split_on_char ':' spec with
  | ["get"; id; oids] -> PGetRequest { g_request_id = z_of_string id; g_vars = parse_oids oids }
  | ["getnext"; id; oids] -> PGetNextRequest { g_request_id = z_of_string id; g_vars = parse_oids oids }
  | ["bulk"; id; nr; mr; oids] ->
    PGetBulkRequest { gb_request_id = z_of_string id; gb_non_repeaters = z_of_string nr;
                      gb_max_repetitions = z_of_string mr; gb_vars = parse_oids oids }
  | _ -> failwith "bad pdu spec"

let render_pv = function
  | PvNone -> "none"
  | PvBool b -> "bool:" ^ b01 b
  | PvInt z -> "int:" ^ sz z
  | PvBytes b -> "bytes:" ^ hx b
  | PvStr s -> "str:" ^ hx s
  | PvFloat r -> "float:" ^ render_real r
let outcome o f = match o with Return a -> "RET " ^ f a | Raise e -> "EXC " ^ exc_name e | Crash -> "PANIC"
let render_tuple (k, v) = "(str:" ^ hx k ^ "," ^ render_pv v ^ ")"

let buf_line spec =
  let ops = String.split_on_char ';' spec in
  let rec go b k marked = function
    | [] -> "OK len=" ^ sz (blen b) ^ " free=" ^ sz (pos b) ^ " mark=" ^ (if marked then sz (get_bookmark b) else "-") ^ " data="
            ^ hex_of_bytes (List.map (fun z -> if z = Zneg XH then z_of_int 0xEE else z) b.data)
    | op :: rest ->
      let r = (match String.split_on_char ':' op with
          | ["u8"; v] -> push_u8 b (z_of_string v)
          | ["push"; h] -> push b (bytes_of_hex h)
          | ["taglen"; t; v] -> push_tag_len b (z_of_string t) (z_of_string v)
          | ["tagged"; t; h] -> push_tagged b (z_of_string t) (bytes_of_hex h)
          | ["skip"; n] -> Ok (skip b (z_of_string n))
          | ["reset"] -> Ok (reset b)
          | ["mark"; d] -> Ok (set_bookmark b (z_of_string d))
          | [""] -> Ok b
          | _ -> failwith "bad buf op") in
      (match r with
       | Ok b' -> go b' (k + 1) (if op = "reset" then false else if String.length op > 4 && String.sub op 0 4 = "mark" then true else marked) rest
       | Err e -> "ERR " ^ ename e ^ " at=" ^ string_of_int k
       | Panic -> "PANIC")
  in go empty_buffer 0 false ops

(* ---- Python layer (Model.PyLayer) *)
let py_exc_of = function
  | "SnmpError" -> ESnmpError | "SnmpDecodeError" -> EDecode | "SnmpEncodeError" -> EEncode | "SnmpAuthError" -> EAuth
  | "NoSuchInstance" -> ENoSuchInstance | "ValueError" -> EValue | "TimeoutError" -> ETimeout | "BlockingIOError" -> EBlockingIO
  | "OSError" -> EOSError | "NotImplementedError" -> ENotImplemented | "RuntimeError" -> ERuntime
  | "StopAsyncIteration" -> EStopAsyncIteration | "StopIteration" -> EStopIteration | _ -> EException
let py_tok_of t =
  match t.[0] with
  | 'r' -> TRet (SvObj (z_of_string (String.sub t 1 (String.length t - 1))))
  | 'l' -> let body = String.sub t 1 (String.length t - 1) in
    TRet (SvList (if body = "" then [] else List.map (fun x -> if x = "n" then None else Some (z_of_string x)) (String.split_on_char '.' body)))
  | 'x' -> TRaise (py_exc_of (String.sub t 1 (String.length t - 1)))
  | _ -> TTimeout
let py_toks script = if script = "-" then [] else List.map py_tok_of (String.split_on_char ',' script)
let py_cfg md pol ver ab mr =
  { pc_mode = (if md = "s" then Sync else Async); pc_policer = (pol = "1");
    pc_version = (match ver with "v1" -> V1 | "v2c" -> V2c | _ -> V3); pc_allow_bulk = (ab = "1"); pc_max_rep = z_of_string mr }
let py_api apis =
  match String.split_on_char ':' apis with
  | ["get"; o] -> ApiGet (bytes_of_hex o)
  | ["getmany"; os] -> ApiGetMany (if os = "-" then [] else List.map bytes_of_hex (String.split_on_char ',' os))
  | ["getnext"; o] -> ApiGetNext (bytes_of_hex o)
  | ["getbulk"; o; r] -> ApiGetBulk (bytes_of_hex o, (if r = "-" then None else Some (z_of_string r)))
  | ["fetch"; o] -> ApiFetch (bytes_of_hex o)
  | _ -> failwith "bad api"
let py_mname = function
  | MGet -> "get" | MGetMany -> "get_many" | MGetNext -> "get_next" | MGetBulk -> "get_bulk"
  | MSendGet -> "send_get" | MRecvGet -> "recv_get" | MSendGetMany -> "send_get_many" | MRecvGetMany -> "recv_get_many"
  | MSendGetNext -> "send_get_next" | MRecvGetNext -> "recv_get_next" | MSendGetBulk -> "send_get_bulk" | MRecvGetBulk -> "recv_get_bulk"
let py_aname = function ANone -> "-" | AOid t -> "o" ^ hx t | AOids ts -> "O" ^ String.concat "," (List.map hx ts) | ACtx -> "c"
let py_ev = function
  | EvPolice -> "P" | EvSock (m, a) -> "S:" ^ py_mname m ^ ":" ^ py_aname a
  | EvIter (o, m) -> "I:" ^ hx o ^ ":" ^ (match m with None -> "-" | Some z -> sz z)
let py_out = function
  | PRet (SvObj z) -> "ret:" ^ sz z
  | PRet (SvList l) -> "retlist:" ^ String.concat "." (List.map (function None -> "n" | Some z -> sz z) l)
  | PRaise e -> "exc:" ^ exc_name e | PCap -> "cap" | PBadScript -> "bad"
let py_evs = function [] -> "-" | l -> String.concat " " (List.map py_ev l)

let handle = function
  | ["hdr"; h] ->
    res (parse_header (bytes_of_hex h)) (fun (rest, hd) ->
        "OK " ^ sz hd.h_class ^ " " ^ b01 hd.h_constructed ^ " " ^ sz hd.h_tag ^ " " ^ sz hd.h_length ^ " rest=" ^ hx rest)
  | ["dec_int"; h] -> typed (int_from_ber (bytes_of_hex h)) (fun v -> "int:" ^ sz v)
  | ["dec_bool"; h] -> typed (bool_from_ber (bytes_of_hex h)) (fun v -> "bool:" ^ b01 v)
  | ["dec_null"; h] -> typed (null_from_ber (bytes_of_hex h)) (fun _ -> "null")
  | ["dec_oid"; h] -> typed (oid_from_ber (bytes_of_hex h)) (fun v -> "oid:" ^ hx v)
  | ["dec_os"; h] -> typed (octetstring_from_ber (bytes_of_hex h)) (fun v -> "os:" ^ hx v)
  | ["dec_od"; h] -> typed (objectdescriptor_from_ber (bytes_of_hex h)) (fun v -> "od:" ^ hx v)
  | ["dec_op"; h] -> typed (opaque_from_ber (bytes_of_hex h)) (fun v -> "op:" ^ hx v)
  | ["dec_seq"; h] -> typed (sequence_from_ber (bytes_of_hex h)) (fun v -> "seq:" ^ hx v)
  | ["dec_opt"; h] -> typed (option_from_ber (bytes_of_hex h)) (fun (t, v) -> "opt:" ^ sz t ^ ":" ^ hx v)
  | ["dec_real"; h] -> typed (real_from_ber (bytes_of_hex h)) render_real
  | ["dec_ip"; h] -> typed (ip_from_ber (bytes_of_hex h)) (fun (((a, b), c), d) -> "ip:" ^ text (ip_text a b c d))
  | ["dec_c32"; h] -> typed (counter32_from_ber (bytes_of_hex h)) (fun v -> "c32:" ^ sz v)
  | ["dec_g32"; h] -> typed (gauge32_from_ber (bytes_of_hex h)) (fun v -> "g32:" ^ sz v)
  | ["dec_tt"; h] -> typed (timeticks_from_ber (bytes_of_hex h)) (fun v -> "tt:" ^ sz v)
  | ["dec_u32"; h] -> typed (uinteger32_from_ber (bytes_of_hex h)) (fun v -> "u32:" ^ sz v)
  | ["dec_c64"; h] -> typed (counter64_from_ber (bytes_of_hex h)) (fun v -> "c64:" ^ sz v)
  | ["dec_reloid"; h] -> typed (reloid_from_ber (bytes_of_hex h)) (fun v -> "reloid:" ^ hx v)
  | ["value"; h] -> typed (value_from_ber (bytes_of_hex h)) render_value
  | ["pdu"; h] -> res (pdu_decode (bytes_of_hex h)) (fun p -> "OK " ^ render_pdu p)
  | ["msg1"; h] -> res (v1_decode (bytes_of_hex h)) (fun m -> "OK c(" ^ hx m.cm_community ^ ")" ^ render_pdu m.cm_pdu)
  | ["msg2"; h] -> res (v2c_decode (bytes_of_hex h)) (fun m -> "OK c(" ^ hx m.cm_community ^ ")" ^ render_pdu m.cm_pdu)
  | ["msg3"; h] ->
    res (v3_decode (bytes_of_hex h)) (fun m ->
        "OK v3(" ^ sz m.m_msg_id ^ "," ^ b01 m.m_flag_auth ^ "," ^ b01 m.m_flag_priv ^ "," ^ b01 m.m_flag_report ^ ";"
        ^ render_usm m.m_usm ^ ";"
        ^ (match m.m_data with Plaintext s -> render_scoped s | Encrypted x -> "enc(" ^ hx x ^ ")") ^ ")")
  | ["usm"; h] -> res (usm_decode (bytes_of_hex h)) (fun u -> "OK " ^ render_usm u)
  | ["scoped"; h] -> res (scoped_decode (bytes_of_hex h)) (fun s -> "OK " ^ render_scoped s)
  | ["oid_parse"; h] -> res (oid_of_text (bytes_of_hex h)) (fun o -> "OK " ^ hx o)
  | ["oid_print"; h] -> res (text_of_oid (bytes_of_hex h)) (fun s -> "OK " ^ hx s)
  | ["enc_int"; v] -> res (push_int empty_buffer (z_of_string v)) (fun b -> "OK " ^ hx b.data)
  | ["enc_oid"; h] -> res (push_oid empty_buffer (bytes_of_hex h)) (fun b -> "OK " ^ hx b.data)
  | ["buf"; spec] -> buf_line spec
  | ["emit_pdu"; spec] -> res (push_pdu empty_buffer (build_pdu spec)) (fun b -> "OK " ^ hx b.data)
  | ["emit1"; c; spec] ->
    res (push_cmsg sNMP_V1 empty_buffer { cm_community = bytes_of_hex c; cm_pdu = build_pdu spec }) (fun b -> "OK " ^ hx b.data)
  | ["emit2"; c; spec] ->
    res (push_cmsg sNMP_V2C empty_buffer { cm_community = bytes_of_hex c; cm_pdu = build_pdu spec }) (fun b -> "OK " ^ hx b.data)
  | ["emit3"; msgid; f; eid; boots; time; user; auth; pp; data] ->
    let i = String.index data ':' in
    let kind = String.sub data 0 i and rest = String.sub data (i + 1) (String.length data - i - 1) in
    let d = if kind = "plain" then
        (let j = String.index rest ':' in
         Plaintext { s_engine_id = bytes_of_hex (String.sub rest 0 j);
                     s_pdu = build_pdu (String.sub rest (j + 1) (String.length rest - j - 1)) })
      else Encrypted (bytes_of_hex rest) in
    let auth = bytes_of_hex auth in
    let m = { m_msg_id = z_of_string msgid; m_flag_auth = f.[0] = '1'; m_flag_priv = f.[1] = '1'; m_flag_report = f.[2] = '1';
              m_usm = { u_engine_id = bytes_of_hex eid; u_engine_boots = z_of_string boots; u_engine_time = z_of_string time;
                        u_user_name = bytes_of_hex user; u_auth_params = auth; u_privacy_params = bytes_of_hex pp };
              m_data = d } in
    res (push_v3 empty_buffer m) (fun b -> "OK " ^ hx b.data ^ " mark=" ^ (if auth = [] then "0" else sz (get_bookmark b)))
  | ["op"; kind; h] ->
    res (pdu_decode (bytes_of_hex h)) (fun p ->
        match kind with
        | "get" -> outcome (get_to_python p) render_pv
        | "getmany" -> outcome (getmany_to_python p)
                         (fun d -> "{" ^ String.concat "," (List.map (fun (k, v) -> "str:" ^ hx k ^ "=" ^ render_pv v) d) ^ "}")
        | "refresh" -> "RET none"
        | _ -> failwith "bad op")
  | "walk" :: kind :: oid :: mr :: pdus ->
    let mr' = if mr = "-" then None else Some (z_of_string mr) in
    (match getiter_new (bytes_of_hex oid) mr' with
     | Raise e -> "NEW-EXC " ^ exc_name e
     | Crash -> "PANIC"
     | Return it0 ->
       let it = ref it0 in
       String.concat " | " (List.map (fun ph ->
           match pdu_decode (bytes_of_hex ph) with
           | Err e -> "ERR " ^ ename e
           | Panic -> "PANIC"
           | Ok p ->
             let s = (match kind with
                 | "next" -> let (it', o) = getnext_to_python p !it in it := it'; outcome o render_tuple
                 | "bulk" -> let (it', o) = getbulk_to_python p !it in it := it';
                   outcome o (fun l -> "[" ^ String.concat "," (List.map (function None -> "none" | Some t -> render_tuple t) l) ^ "]")
                 | _ -> failwith "bad walk kind") in
             s ^ " next=" ^ hx !it.next_oid ^ " mr=" ^ sz !it.max_repetitions) pdus))
  | "pywalk" :: kind :: oid :: mr :: fuel :: pdus ->
    (* the whole Python-level walk (Model.Walk) against the agent that answers request n with the n-th PDU (the last
       one for every later request): kind = next | bulk:<requested max_rep or -> | fetch:<v1|v2c|v3>:<allow_bulk 0|1> *)
    let ps = List.map (fun ph -> match pdu_decode (bytes_of_hex ph) with Ok p -> p | _ -> failwith "undecodable pdu") pdus in
    let agent n _ =
      let i = int_of_nat n in
      let len = List.length ps in
      List.nth ps (if i < len then i else len - 1) in
    let f = nat_of_int (int_of_string fuel) in
    let dflt = z_of_string mr in
    let w = (match String.split_on_char ':' kind with
        | ["next"] -> getnext_walk f agent (bytes_of_hex oid)
        | ["bulk"; req] ->
          getbulk_walk f agent (bytes_of_hex oid) (effective_max_rep (if req = "-" then None else Some (z_of_string req)) dflt)
        | ["fetch"; v; ab] ->
          fetch_walk f agent (match v with "v1" -> V1 | "v2c" -> V2c | _ -> V3) (ab = "1") dflt (bytes_of_hex oid)
        | _ -> failwith "bad pywalk kind") in
    (match w with
     | Raise e -> "NEW-EXC " ^ exc_name e
     | Crash -> "PANIC"
     | Return w ->
       "OK items=" ^ (match w.yielded with [] -> "-" | l -> String.concat ";" (List.map (fun i -> render_tuple (i.it_key, i.it_value)) l))
       ^ " req=" ^ (match w.requested with [] -> "-" | l -> String.concat "," (List.map hx l))
       ^ " end=" ^ (match w.ended with Stopped -> "STOP" | Raised e -> exc_name e | CrashedW -> "PANIC" | OutOfFuel -> "CAP"))
  | ["pyapi"; md; pol; ver; ab; mr; fuel; apis; script] ->
    (* the Python layer (Model.PyLayer.run_api) on a script of socket results *)
    let r = run_api (py_cfg md pol ver ab mr) (nat_of_int (int_of_string fuel)) (py_api apis) (py_toks script) in
    "EV " ^ py_evs r.r_events
    ^ " | ITEMS " ^ (match r.r_items with [] -> "-" | l -> String.concat "," (List.map sz l))
    ^ " | END " ^ py_out r.r_end
    ^ " | REST " ^ string_of_int (List.length r.r_rest)
  | ["pyprog"; md; pol; ver; ab; mr; prog; script] ->
    (* a program of single calls and next() calls on several iterators of one session: c=<api> ; n=<api> ; x=<iterator number> *)
    let cmd_of c =
      match c.[0] with
      | 'c' -> CCall (py_api (String.sub c 2 (String.length c - 2)))
      | 'n' -> CNew (py_api (String.sub c 2 (String.length c - 2)))
      | _ -> CNext (nat_of_int (int_of_string (String.sub c 2 (String.length c - 2)))) in
    let p = List.map cmd_of (String.split_on_char ';' prog) in
    let ((evs, outs), rest) = run_prog (py_cfg md pol ver ab mr) p [] (py_toks script) [] [] in
    "EV " ^ py_evs evs ^ " | OUTS " ^ String.concat "," (List.map py_out outs) ^ " | REST " ^ string_of_int (List.length rest)
  | "recvloop" :: ver :: comm :: rid :: ds ->
    (* the community receive loop on the datagrams that arrive, in order *)
    let v = if ver = "1" then sNMP_V1 else sNMP_V2C in
    (match c_recv_loop v (bytes_of_hex comm) (z_of_string rid) (List.map bytes_of_hex ds) with
     | Delivered (p, rest) -> "DELIVER " ^ render_pdu p ^ " left=" ^ string_of_int (List.length rest)
     | Failed (e, rest) -> "FAIL " ^ exc_name e ^ " left=" ^ string_of_int (List.length rest)
     | Crashed -> "PANIC"
     | TimedOut -> "TIMEOUT")
  | _ -> "DRIVER-ERROR unknown command"
let () = main_loop handle

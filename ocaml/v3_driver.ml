(* Model side of the v3 / crypto line protocol (mirrors the keys/sign/priv commands of harness_main.rs and adds
   session-level commands used with the API driver). *)
let ename = function
  | Incomplete -> "Incomplete" | UnexpectedTag -> "UnexpectedTag" | InvalidTagFormat -> "InvalidTagFormat"
  | UnknownPdu -> "UnknownPdu" | InvalidPdu -> "InvalidPdu" | InvalidData -> "InvalidData"
  | InvalidKey -> "InvalidKey" | UnsupportedTag -> "UnsupportedTag" | TrailingData -> "TrailingData"
  | InvalidVersion -> "InvalidVersion" | OutOfBuffer -> "OutOfBuffer" | NotImplemented -> "NotImplemented"
  | NoSuchInstance -> "NoSuchInstance" | SocketError -> "SocketError" | WouldBlock -> "WouldBlock"
  | ConnectionRefused -> "ConnectionRefused" | UnknownSecurityModel -> "UnknownSecurityModel"
  | AuthenticationFailed -> "AuthenticationFailed"
let sz = string_of_z
let hx = hex_of_bytes
let b01 b = if b then "1" else "0"
let res r f = match r with Ok a -> f a | Err e -> "ERR " ^ ename e | Panic -> "PANIC"
let nat8 = nat_of_int 8
let nat16 = nat_of_int 16

let parse_oids s = List.map bytes_of_hex (split_on ',' s)
let build_pdu spec =
  match String.split_on_char ':' spec with
  | ["get"; id; oids] -> PGetRequest { g_request_id = z_of_string id; g_vars = parse_oids oids }
  | ["getnext"; id; oids] -> PGetNextRequest { g_request_id = z_of_string id; g_vars = parse_oids oids }
  | ["bulk"; id; nr; mr; oids] ->
    PGetBulkRequest { gb_request_id = z_of_string id; gb_non_repeaters = z_of_string nr;
                      gb_max_repetitions = z_of_string mr; gb_vars = parse_oids oids }
  | _ -> failwith "bad pdu spec"

let render_oids l = String.concat "," (List.map hx l)
let render_real = function
  | RZero -> "real:zero" | RBin (neg, m, e) -> "real:bin:" ^ b01 neg ^ ":" ^ sz m ^ ":" ^ sz e
  | RInt v -> "real:int:" ^ sz v | RDec t -> "real:dec:" ^ hx t
  | RPlusInf -> "real:+inf" | RMinusInf -> "real:-inf" | RNaN -> "real:nan" | RMinusZero -> "real:-zero"
let render_value = function
  | VBool b -> "bool:" ^ b01 b | VInt z -> "int:" ^ sz z | VNull -> "null" | VOctetString b -> "os:" ^ hx b
  | VOid b -> "oid:" ^ hx b | VObjectDescriptor b -> "od:" ^ hx b | VReal r -> render_real r
  | VIpAddress (a, b, c, d) -> "ip:" ^ sz a ^ "." ^ sz b ^ "." ^ sz c ^ "." ^ sz d
  | VCounter32 z -> "c32:" ^ sz z | VGauge32 z -> "g32:" ^ sz z | VTimeTicks z -> "tt:" ^ sz z
  | VOpaque b -> "op:" ^ hx b | VCounter64 z -> "c64:" ^ sz z | VUInteger32 z -> "u32:" ^ sz z
  | VNoSuchObject -> "nso" | VNoSuchInstance -> "nsi" | VEndOfMibView -> "eomv"
let render_pdu = function
  | PGetRequest g -> "get(" ^ sz g.g_request_id ^ ";" ^ render_oids g.g_vars ^ ")"
  | PGetNextRequest g -> "getnext(" ^ sz g.g_request_id ^ ";" ^ render_oids g.g_vars ^ ")"
  | PGetBulkRequest g -> "bulk(" ^ sz g.gb_request_id ^ "," ^ sz g.gb_non_repeaters ^ "," ^ sz g.gb_max_repetitions
                         ^ ";" ^ render_oids g.gb_vars ^ ")"
  | PGetResponse r ->
    "resp(" ^ sz r.gr_request_id ^ "," ^ sz r.gr_error_status ^ "," ^ sz r.gr_error_index ^ ";"
    ^ String.concat "," (List.map (fun v -> hx v.vb_oid ^ "=" ^ render_value v.vb_value) r.gr_vars) ^ ")"
  | PReport raw -> "report(" ^ hx raw ^ ")"
let render_scoped s = "plain(" ^ hx s.s_engine_id ^ "," ^ render_pdu s.s_pdu ^ ")"

let alg_of a = res (auth_new (z_of_string a)) (fun _ -> "") |> ignore
let auth_key_of alg = auth_new (z_of_string alg)

(* session state is passed on the command line:
   sess = <eid>/<boots>/<time>/<user>/<authalg 0|1|2>/<localized auth key>/<privalg 0|1|2>/<localized priv key>/<salt>/<msgid>/<reqid> *)
let parse_sess s =
  match String.split_on_char '/' s with
  | [eid; boots; time; user; aalg; akey; palg; pkey; salt; mid; rid] ->
    let a = { ak_alg = (match aalg with "0" -> ANoAuth | "1" -> AMd5 | _ -> ASha1); ak_key = bytes_of_hex akey } in
    let palg' = (match palg with "0" -> PNoPriv | "1" -> PDes | _ -> PAes) in
    let k = bytes_of_hex pkey in
    let take n l = let rec go n l = if n = 0 then [] else match l with [] -> [] | x :: r -> x :: go (n - 1) r in go n l in
    let drop n l = let rec go n l = if n = 0 then l else match l with [] -> [] | _ :: r -> go (n - 1) r in go n l in
    let p = (match palg' with
        | PNoPriv -> { pk_alg = PNoPriv; pk_key = []; pk_pre_iv = []; pk_salt = Z0 }
        | PDes -> { pk_alg = PDes; pk_key = take 8 k; pk_pre_iv = take 8 (drop 8 k); pk_salt = z_of_string salt }
        | PAes -> { pk_alg = PAes; pk_key = take 16 k; pk_pre_iv = []; pk_salt = z_of_string salt }) in
    { engine_id = bytes_of_hex eid; engine_boots = z_of_string boots; engine_time = z_of_string time;
      user_name = bytes_of_hex user; auth = a; privk = p; msg_id = z_of_string mid; request_id = z_of_string rid }
  | _ -> failwith "bad session"
let render_sess s =
  String.concat "/" [hx s.engine_id; sz s.engine_boots; sz s.engine_time; hx s.user_name;
                     (match s.auth.ak_alg with ANoAuth -> "0" | AMd5 -> "1" | ASha1 -> "2"); hx s.auth.ak_key;
                     (match s.privk.pk_alg with PNoPriv -> "0" | PDes -> "1" | PAes -> "2");
                     hx (s.privk.pk_key @ s.privk.pk_pre_iv); sz s.privk.pk_salt; sz s.msg_id; sz s.request_id]

(* Python layer (Model.Session): user = <name>:<aalg 0|1|2>:<akt 0|1|2>:<akey>:<palg 0|1|2>:<pkt>:<pkey>  ("-" = no user) *)
let kt_of = function "0" -> KtPassword | "1" -> KtMaster | _ -> KtLocalized
let kt_str = function KtPassword -> "0" | KtMaster -> "1" | KtLocalized -> "2"
let parse_user u =
  match String.split_on_char ':' u with
  | [name; aalg; akt; akey; palg; pkt; pkey] ->
    { usr_name = bytes_of_hex name;
      usr_auth = (if aalg = "0" then None else Some ((z_of_string aalg, kt_of akt), bytes_of_hex akey));
      usr_priv = (if palg = "0" then None else Some ((z_of_string palg, kt_of pkt), bytes_of_hex pkey)) }
  | _ -> failwith "bad user"
let render_user u =
  let part = function None -> "0:0:-" | Some ((a, t), k) -> sz a ^ ":" ^ kt_str t ^ ":" ^ hx k in
  hx u.usr_name ^ ":" ^ part u.usr_auth ^ ":" ^ part u.usr_priv
(* pysess = <sess>;<to_refresh 0|1>;<deferred user or -> *)
let parse_pysess s =
  match String.split_on_char ';' s with
  | [sess; tr; du] -> { ps_sock = parse_sess sess; ps_to_refresh = (tr = "1"); ps_deferred = (if du = "-" then None else Some (parse_user du)) }
  | _ -> failwith "bad pysession"
let render_pysess p =
  render_sess p.ps_sock ^ ";" ^ b01 p.ps_to_refresh ^ ";" ^ (match p.ps_deferred with None -> "-" | Some u -> render_user u)
let exc_name = function
  | ESnmpError -> "SnmpError" | EDecode -> "SnmpDecodeError" | EEncode -> "SnmpEncodeError" | EAuth -> "SnmpAuthError"
  | ENoSuchInstance -> "NoSuchInstance" | EValue -> "ValueError" | ETimeout -> "TimeoutError" | EBlockingIO -> "BlockingIOError"
  | EOSError -> "OSError" | ENotImplemented -> "NotImplementedError" | ERuntime -> "RuntimeError"
  | EStopAsyncIteration -> "StopAsyncIteration" | EStopIteration -> "StopIteration" | EException -> "Exception"
let parse_io rid mid arr =
  { io_rnd_req = z_of_string rid; io_rnd_msg = z_of_string mid;
    io_arrivals = (if arr = "-" then [] else List.map bytes_of_hex (String.split_on_char ',' arr)) }

let handle = function
  | ["pyuser"; u] ->
    let u = parse_user u in
    "OK " ^ sz (user_auth_alg u) ^ " " ^ hx (user_auth_key u) ^ " " ^ sz (user_priv_alg u) ^ " " ^ hx (user_priv_key u) ^ " " ^ b01 (require_auth u)
  | ["pysession"; eid; u; seed] ->
    res (session_new (bytes_of_hex eid) (parse_user u) (z_of_string seed)) (fun p -> "OK " ^ render_pysess p)
  | ["pyrefresh"; ps; rid1; mid1; arr1; rid2; mid2; arr2; seed] ->
    let r = py_refresh (parse_pysess ps) (parse_io rid1 mid1 arr1) (parse_io rid2 mid2 arr2) (z_of_string seed) in
    (if r.rr_crashed then "PANIC" else match r.rr_raised with None -> "RET" | Some e -> "EXC " ^ exc_name e)
    ^ " sent=" ^ (match r.rr_sent with [] -> "-" | l -> String.concat "," (List.map hx l)) ^ " " ^ render_pysess r.rr_session
  | ["p2m"; alg; pw] ->
    res (auth_key_of alg) (fun k -> res (alg_p2m k.ak_alg (bytes_of_hex pw)) (fun m -> "OK " ^ hx m))
  | ["localize"; alg; key; eng] ->
    res (auth_key_of alg) (fun k -> res (alg_localize k.ak_alg (bytes_of_hex key) (bytes_of_hex eng)) (fun m -> "OK " ^ hx m))
  | ["keytype"; alg; code; key; eng] ->
    res (auth_key_of alg) (fun k ->
        res (as_key_type k (z_of_string code) (bytes_of_hex key) (bytes_of_hex eng)) (fun k' -> "OK " ^ hx k'.ak_key))
  | ["sign"; alg; key; msg; off] ->
    res (auth_key_of alg) (fun k ->
        res (as_key_type k (Z.add (z_of_string alg) (z_of_int 128)) (bytes_of_hex key) []) (fun k' ->
            res (alg_sign k' (bytes_of_hex msg) (z_of_string off)) (fun m -> "OK " ^ hx m)))
  | ["pymaster"; alg; pw] ->
    (match get_master_key (z_of_string alg) (bytes_of_hex pw) with
     | PyOk m -> "RET bytes:" ^ hx m | PyValueError -> "EXC ValueError" | PyDecodeError -> "EXC SnmpDecodeError" | PyPanic -> "PANIC")
  | ["pylocalized"; alg; key; eng] ->
    (match get_localized_key (z_of_string alg) (bytes_of_hex key) (bytes_of_hex eng) with
     | PyOk m -> "RET bytes:" ^ hx m | PyValueError -> "EXC ValueError" | PyDecodeError -> "EXC SnmpDecodeError" | PyPanic -> "PANIC")
  | ["priv"; alg; key; seed; ops] ->
    res (priv_new (z_of_string alg)) (fun p0 ->
        res (priv_as_localized p0 (bytes_of_hex key) (z_of_string seed)) (fun p ->
            let k = ref p in
            let outs = List.map (fun op ->
                match String.split_on_char ',' op with
                | ["s"; v] -> k := { !k with pk_salt = z_of_string v }; "S"
                | ["e"; ctx; spec; boots; time] ->
                  (match priv_encrypt !k { s_engine_id = bytes_of_hex ctx; s_pdu = build_pdu spec } (z_of_string boots) (z_of_string time) with
                   | (k', Ok (ct, pp)) -> k := k'; "E " ^ hx ct ^ " " ^ hx pp
                   | (k', Err e) -> k := k'; "ERR " ^ ename e | (k', Panic) -> k := k'; "PANIC")
                | ["d"; pp; boots; time; data] ->
                  let u = { u_engine_id = []; u_engine_boots = z_of_string boots; u_engine_time = z_of_string time;
                            u_user_name = []; u_auth_params = []; u_privacy_params = bytes_of_hex pp } in
                  (match priv_decrypt !k (bytes_of_hex data) u with
                   | Ok s -> "D " ^ render_scoped s | Err e -> "ERR " ^ ename e | Panic -> "PANIC")
                | _ -> failwith "bad priv op") (String.split_on_char '|' ops) in
            "OK " ^ String.concat " | " outs))
  | ["cipher"; alg; dir; key; iv; data] ->
    let key = bytes_of_hex key and iv = bytes_of_hex iv and data = bytes_of_hex data in
    "OK " ^ hx (match alg, dir with
        | "des", "enc" -> cbc_encrypt (des_encrypt_block key) nat8 iv data
        | "des", "dec" -> cbc_decrypt (des_decrypt_block key) nat8 iv data
        | "aes", "enc" -> cfb_encrypt (aes128_encrypt_block key) nat16 iv data
        | "aes", "dec" -> cfb_decrypt (aes128_encrypt_block key) nat16 iv data
        | _ -> failwith "bad cipher")
  | ["hash"; alg; data] -> "OK " ^ hx ((if alg = "md5" then md5 else sha1) (bytes_of_hex data))
  | ["v3new"; eid; user; aalg; akey; palg; pkey; seed] ->
    res (v3_new (bytes_of_hex eid) (bytes_of_hex user) (z_of_string aalg) (bytes_of_hex akey) (z_of_string palg)
           (bytes_of_hex pkey) (z_of_string seed)) (fun s -> "OK " ^ render_sess s)
  | ["v3setkeys"; sess; user; aalg; akey; palg; pkey; seed] ->
    (* the socket after the call is printed whether the keys were accepted or refused *)
    let (s', r) = v3_set_keys_st (parse_sess sess) (bytes_of_hex user) (z_of_string aalg) (bytes_of_hex akey) (z_of_string palg)
        (bytes_of_hex pkey) (z_of_string seed) in
    res r (fun _ -> "OK") ^ " " ^ render_sess s'
  | ["v3emit"; sess; spec; rndmsg] ->
    let (s, r) = v3_push_pdu (parse_sess sess) (build_pdu spec) (z_of_string rndmsg) in
    res r (fun d -> "OK " ^ hx d) ^ " " ^ render_sess s
  | "v3recv" :: sess :: ds ->
    let (s, r) = v3_recv_loop (parse_sess sess) (List.map bytes_of_hex ds) in
    (match r with
     | Delivered (p, rest) -> "DELIVER " ^ render_pdu p ^ " rest=" ^ string_of_int (List.length rest)
     | Failed (e, rest) -> "FAIL " ^ (match e with EDecode -> "SnmpDecodeError" | _ -> "other") ^ " rest=" ^ string_of_int (List.length rest)
     | Crashed -> "PANIC"
     | TimedOut -> "TIMEOUT") ^ " " ^ render_sess s
  | ["msg3plain"; h] ->
    res (v3_decode (bytes_of_hex h)) (fun m -> match m.m_data with Plaintext s -> "OK " ^ render_scoped s | Encrypted x -> "OK enc(" ^ hx x ^ ")")
  | _ -> "DRIVER-ERROR unknown command"
let () = main_loop handle


val negb : bool -> bool

type nat =
| O
| S of nat

type comparison =
| Eq
| Lt
| Gt

val compOpp : comparison -> comparison

type positive =
| XI of positive
| XO of positive
| XH

type z =
| Z0
| Zpos of positive
| Zneg of positive

module Pos :
 sig
  val succ : positive -> positive

  val add : positive -> positive -> positive

  val add_carry : positive -> positive -> positive

  val pred_double : positive -> positive

  val mul : positive -> positive -> positive

  val compare_cont : comparison -> positive -> positive -> comparison

  val compare : positive -> positive -> comparison

  val eqb : positive -> positive -> bool

  val of_succ_nat : nat -> positive
 end

module Z :
 sig
  val double : z -> z

  val succ_double : z -> z

  val pred_double : z -> z

  val pos_sub : positive -> positive -> z

  val add : z -> z -> z

  val opp : z -> z

  val sub : z -> z -> z

  val mul : z -> z -> z

  val compare : z -> z -> comparison

  val leb : z -> z -> bool

  val ltb : z -> z -> bool

  val eqb : z -> z -> bool

  val abs : z -> z

  val of_nat : nat -> z

  val pos_div_eucl : positive -> z -> z * z

  val div_eucl : z -> z -> z * z
 end

type pstate = { _prev : z option; _delta : z }

val get_timeout : pstate -> z -> pstate * z option

val init : bool -> z -> pstate option

val sleep_of : z option -> z

val release : pstate -> z -> pstate * z

val run : pstate -> z -> z list -> z list

val sleeps : pstate -> z -> z list -> z list

val history : pstate -> z -> z list -> z list

val history_sleeps : pstate -> z -> z list -> z list


val xorb : bool -> bool -> bool

val negb : bool -> bool

type nat =
| O
| S of nat

val fst : ('a1 * 'a2) -> 'a1

val snd : ('a1 * 'a2) -> 'a2

val length : 'a1 list -> nat

val app : 'a1 list -> 'a1 list -> 'a1 list

type comparison =
| Eq
| Lt
| Gt

val compOpp : comparison -> comparison

val add : nat -> nat -> nat

val sub : nat -> nat -> nat

type positive =
| XI of positive
| XO of positive
| XH

type n =
| N0
| Npos of positive

type z =
| Z0
| Zpos of positive
| Zneg of positive

module Nat :
 sig
  val pred : nat -> nat

  val min : nat -> nat -> nat

  val even : nat -> bool

  val odd : nat -> bool

  val div2 : nat -> nat

  val testbit : nat -> nat -> bool
 end

module Pos :
 sig
  val succ : positive -> positive

  val add : positive -> positive -> positive

  val add_carry : positive -> positive -> positive

  val pred_double : positive -> positive

  val pred_N : positive -> n

  val mul : positive -> positive -> positive

  val iter : ('a1 -> 'a1) -> 'a1 -> positive -> 'a1

  val div2 : positive -> positive

  val div2_up : positive -> positive

  val compare_cont : comparison -> positive -> positive -> comparison

  val compare : positive -> positive -> comparison

  val eqb : positive -> positive -> bool

  val coq_Nsucc_double : n -> n

  val coq_Ndouble : n -> n

  val coq_lor : positive -> positive -> positive

  val coq_land : positive -> positive -> n

  val ldiff : positive -> positive -> n

  val coq_lxor : positive -> positive -> n

  val testbit : positive -> n -> bool

  val iter_op : ('a1 -> 'a1 -> 'a1) -> positive -> 'a1 -> 'a1

  val to_nat : positive -> nat

  val of_succ_nat : nat -> positive
 end

module N :
 sig
  val succ_pos : n -> positive

  val coq_lor : n -> n -> n

  val coq_land : n -> n -> n

  val ldiff : n -> n -> n

  val coq_lxor : n -> n -> n

  val testbit : n -> n -> bool
 end

module Z :
 sig
  val double : z -> z

  val succ_double : z -> z

  val pred_double : z -> z

  val pos_sub : positive -> positive -> z

  val add : z -> z -> z

  val opp : z -> z

  val sub : z -> z -> z

  val mul : z -> z -> z

  val compare : z -> z -> comparison

  val leb : z -> z -> bool

  val ltb : z -> z -> bool

  val eqb : z -> z -> bool

  val max : z -> z -> z

  val min : z -> z -> z

  val to_nat : z -> nat

  val of_nat : nat -> z

  val of_N : n -> z

  val iter : z -> ('a1 -> 'a1) -> 'a1 -> 'a1

  val pos_div_eucl : positive -> z -> z * z

  val div_eucl : z -> z -> z * z

  val div : z -> z -> z

  val modulo : z -> z -> z

  val odd : z -> bool

  val div2 : z -> z

  val testbit : z -> z -> bool

  val shiftl : z -> z -> z

  val shiftr : z -> z -> z

  val coq_lor : z -> z -> z

  val coq_land : z -> z -> z

  val coq_lxor : z -> z -> z
 end

val nth : nat -> 'a1 list -> 'a1 -> 'a1

val nth_error : 'a1 list -> nat -> 'a1 option

val rev : 'a1 list -> 'a1 list

val rev_append : 'a1 list -> 'a1 list -> 'a1 list

val map : ('a1 -> 'a2) -> 'a1 list -> 'a2 list

val flat_map : ('a1 -> 'a2 list) -> 'a1 list -> 'a2 list

val fold_left : ('a1 -> 'a2 -> 'a1) -> 'a2 list -> 'a1 -> 'a1

val firstn : nat -> 'a1 list -> 'a1 list

val skipn : nat -> 'a1 list -> 'a1 list

val repeat : 'a1 -> nat -> 'a1 list

type bytes = z list

type err =
| Incomplete
| UnexpectedTag
| InvalidTagFormat
| UnknownPdu
| InvalidPdu
| InvalidData
| InvalidKey
| UnsupportedTag
| TrailingData
| InvalidVersion
| OutOfBuffer
| NotImplemented
| NoSuchInstance
| SocketError
| WouldBlock
| ConnectionRefused
| UnknownSecurityModel
| AuthenticationFailed

type 'a res =
| Ok of 'a
| Err of err
| Panic

val bind : 'a1 res -> ('a1 -> 'a2 res) -> 'a2 res

val len : bytes -> z

val idx : bytes -> nat -> z res

val takez : z -> bytes -> bytes

val dropz : z -> bytes -> bytes

val slice_to : bytes -> z -> bytes res

val slice_from : bytes -> z -> bytes res

val wrap8 : z -> z

val wrap32 : z -> z

val wrap64 : z -> z

val swrap64 : z -> z

val sat64 : z -> z

val testbit0 : z -> z -> bool

val all_eqb : bytes -> bytes -> bool

val tAG_BOOL : z

val tAG_INT : z

val tAG_OCTET_STRING : z

val tAG_NULL : z

val tAG_OBJECT_ID : z

val tAG_OBJECT_DESCRIPTOR : z

val tAG_REAL : z

val tAG_SEQUENCE : z

val tAG_RELATIVE_OID : z

val tAG_APP_IPADDRESS : z

val tAG_APP_COUNTER32 : z

val tAG_APP_GAUGE32 : z

val tAG_APP_TIMETICKS : z

val tAG_APP_OPAQUE : z

val tAG_APP_COUNTER64 : z

val tAG_APP_UINTEGER32 : z

val tAG_CTX_NO_SUCH_OBJECT : z

val tAG_CTX_NO_SUCH_INSTANCE : z

val tAG_CTX_END_OF_MIB_VIEW : z

val bUF_MAX_SIZE : z

val sNMP_V3 : z

val pDU_GET_REQUEST : z

val pDU_GETNEXT_REQUEST : z

val pDU_GET_RESPONSE : z

val pDU_GET_BULK_REQUEST : z

val pDU_REPORT : z

val pDU_TAG_GET : z

val pDU_TAG_GETNEXT : z

val pDU_TAG_GETBULK : z

val v3_MAX_SIZE : z

val uSM_MODEL : z

val fLAG_REPORT : z

val fLAG_PRIV : z

val fLAG_AUTH : z

val mAX_REQUEST_ID : z

val nO_AUTH : z

val mD5_AUTH : z

val sHA1_AUTH : z

val kT_ALG_MASK : z

val kT_TYPE_MASK : z

val kT_PASSWORD : z

val kT_MASTER : z

val kT_LOCALIZED : z

val mD5_KEY_SIZE : z

val mD5_SIGN_SIZE : z

val sHA1_KEY_SIZE : z

val sHA1_SIGN_SIZE : z

val pADDED_LENGTH : z

val iPAD_VALUE : z

val oPAD_VALUE : z

val mEGABYTE : z

val nO_PRIV : z

val pRIV_DES : z

val pRIV_AES128 : z

val pRIV_KT_ALG_MASK : z

val dES_KEY_LENGTH : z

val dES_ENC_KEY_LENGTH : z

val dES_BLOCK_SIZE : z

val aES_KEY_LENGTH : z

val aES_BLOCK_SIZE : z

type hdr = { h_class : z; h_constructed : bool; h_tag : z; h_length : z }

val tag_loop : z -> bytes -> (z * bytes) res

val len_loop : nat -> z -> bytes -> (z * bytes) res

val parse_header : bytes -> (bytes * hdr) res

val from_ber :
  z -> bool -> bool -> (bytes -> hdr -> 'a1 res) -> bytes -> (bytes * 'a1) res

val decode_bool : bytes -> hdr -> bool res

val decode_null : bytes -> hdr -> unit res

val fold_be : (z -> z) -> bytes -> z

val decode_int : bytes -> hdr -> z res

val decode_u32 : bytes -> hdr -> z res

val decode_u64 : bytes -> hdr -> z res

val decode_slice : bytes -> hdr -> bytes res

val decode_ip : bytes -> hdr -> (((z * z) * z) * z) res

type real =
| RZero
| RBin of bool * z * z
| RInt of z
| RDec of bytes
| RPlusInf
| RMinusInf
| RNaN
| RMinusZero

val is_digit : z -> bool

val all_digits : bytes -> bool

val digits_value : bytes -> z

val parse_i32 : bytes -> z option

val span_digits : bytes -> bytes * bytes

val lower : z -> z

val is_special_word : bytes -> bool

val valid_exp : bytes -> bool

val is_rust_float : bytes -> bool

val decode_real : bytes -> hdr -> real res

type value =
| VBool of bool
| VInt of z
| VNull
| VOctetString of bytes
| VOid of bytes
| VObjectDescriptor of bytes
| VReal of real
| VIpAddress of z * z * z * z
| VCounter32 of z
| VGauge32 of z
| VTimeTicks of z
| VOpaque of bytes
| VCounter64 of z
| VUInteger32 of z
| VNoSuchObject
| VNoSuchInstance
| VEndOfMibView

val value_from_ber : bytes -> (bytes * value) res

val int_from_ber : bytes -> (bytes * z) res

val null_from_ber : bytes -> (bytes * unit) res

val oid_from_ber : bytes -> (bytes * bytes) res

val octetstring_from_ber : bytes -> (bytes * bytes) res

val reloid_from_ber : bytes -> (bytes * bytes) res

val sequence_from_ber : bytes -> (bytes * bytes) res

val option_from_ber : bytes -> (bytes * (z * bytes)) res

val subelements : bytes -> z

val find_sub : bytes -> z -> z -> z -> z -> z option

val find_subelement : bytes -> z -> z option

val normalize : bytes -> bytes -> bytes res

val try_normalize : bytes -> bytes -> bytes res

type varbind = { vb_oid : bytes; vb_value : value }

type getresponse = { gr_request_id : z; gr_error_status : z;
                     gr_error_index : z; gr_vars : varbind list }

type getreq = { g_request_id : z; g_vars : bytes list }

type getbulk = { gb_request_id : z; gb_non_repeaters : z;
                 gb_max_repetitions : z; gb_vars : bytes list }

type pdu =
| PGetRequest of getreq
| PGetNextRequest of getreq
| PGetResponse of getresponse
| PGetBulkRequest of getbulk
| PReport of bytes

val resp_vars : nat -> bytes -> varbind list -> varbind list res

val getresponse_decode : bytes -> getresponse res

val parse_var : bytes -> (bytes * bytes) res

val req_vars : nat -> bytes -> bytes list -> bytes list res

val get_decode : bytes -> getreq res

val getbulk_decode : bytes -> getbulk res

val pdu_decode : bytes -> pdu res

val pdu_request_id : pdu -> z option

val pdu_check : pdu -> z -> bool

val as_u8 : z -> z

type usm = { u_engine_id : bytes; u_engine_boots : z; u_engine_time : 
             z; u_user_name : bytes; u_auth_params : bytes;
             u_privacy_params : bytes }

type scoped = { s_engine_id : bytes; s_pdu : pdu }

type msgdata =
| Plaintext of scoped
| Encrypted of bytes

type v3msg = { m_msg_id : z; m_flag_auth : bool; m_flag_priv : bool;
               m_flag_report : bool; m_usm : usm; m_data : msgdata }

val usm_decode : bytes -> usm res

val scoped_decode : bytes -> scoped res

val msgdata_decode : bytes -> msgdata res

val v3_decode : bytes -> v3msg res

type buffer = { data : bytes; bookmark : z }

val empty_buffer : buffer

val blen : buffer -> z

val pos : buffer -> z

val with_data : buffer -> bytes -> buffer

val push_u8 : buffer -> z -> buffer res

val push : buffer -> bytes -> buffer res

val push_tag_len : buffer -> z -> z -> buffer res

val push_tagged : buffer -> z -> bytes -> buffer res

val set_bookmark : buffer -> z -> buffer

val get_bookmark : buffer -> z

val int_pos_loop : nat -> buffer -> z -> buffer res

val int_neg_loop : nat -> buffer -> z -> buffer res

val push_int : buffer -> z -> buffer res

val push_oid : buffer -> bytes -> buffer res

val push_null : buffer -> buffer res

val push_vars_rev : buffer -> bytes list -> buffer res

val push_get : buffer -> getreq -> buffer res

val push_getbulk : buffer -> getbulk -> buffer res

val push_pdu : buffer -> pdu -> buffer res

val eMPTY_BER : bytes

val push_os_or_empty : buffer -> bytes -> buffer res

val push_usm : buffer -> usm -> buffer res

val push_scoped : buffer -> scoped -> buffer res

val push_msgdata : buffer -> msgdata -> buffer res

val flags_octet : v3msg -> z

val push_v3 : buffer -> v3msg -> buffer res

type exc =
| ESnmpError
| EDecode
| EEncode
| EAuth
| ENoSuchInstance
| EValue
| ETimeout
| EBlockingIO
| EOSError
| ENotImplemented
| ERuntime
| EStopAsyncIteration
| EStopIteration
| EException

type 'a outcome =
| Return of 'a
| Raise of exc
| Crash

val err_to_exc : err -> exc

val dOT : z

val dec_loop : nat -> z -> bytes -> bytes

val dec : z -> bytes

val print_rest : bytes -> z -> bytes

val text_of_oid : bytes -> bytes res

val ip_text : z -> z -> z -> z -> bytes

type pv =
| PvNone
| PvBool of bool
| PvInt of z
| PvBytes of bytes
| PvStr of bytes
| PvFloat of real

val value_to_py : value -> pv res

val lift : 'a1 res -> 'a1 outcome

val get_to_python : pdu -> pv outcome

type 'a recv_result =
| Delivered of 'a * bytes list
| Failed of exc * bytes list
| Crashed
| TimedOut

val mASK32 : z

val add32 : z -> z -> z

val not32 : z -> z

val rotl32 : z -> z -> z

val rotl32_split : z -> z -> z -> z -> z

val le32 : z -> z -> z -> z -> z

val be32 : z -> z -> z -> z -> z

val le_bytes : z -> z list

val be_bytes : z -> z list

val le64_bytes : z -> z list

val be64_bytes : z -> z list

val le_words : z list -> z list

val be_words_rev : z list -> z list -> z list

type 'h hstate = { hs_h : 'h; hs_total : z; hs_plen : z; hs_pend : z list }

val hs_start : 'a1 -> 'a1 hstate

val hs_feed : ('a1 -> z list -> 'a1) -> 'a1 hstate -> z -> 'a1 hstate

val hs_update : ('a1 -> z list -> 'a1) -> 'a1 hstate -> z list -> 'a1 hstate

val hs_nzeros : z -> nat

val hs_finish : ('a1 -> z list -> 'a1) -> z list -> 'a1 hstate -> 'a1

type md5_words = ((z * z) * z) * z

val md5_iv : md5_words

val md5_F : z -> z -> z -> z

val md5_G : z -> z -> z -> z

val md5_H : z -> z -> z -> z

val md5_I : z -> z -> z -> z

val md5_T1 : ((z * z) * nat) list

val md5_T2 : ((z * z) * nat) list

val md5_T3 : ((z * z) * nat) list

val md5_T4 : ((z * z) * nat) list

val md5_step :
  (z -> z -> z -> z) -> z list -> md5_words -> ((z * z) * nat) -> md5_words

val md5_compress : md5_words -> z list -> md5_words

type md5_state = md5_words hstate

val md5_init : md5_state

val md5_update : md5_state -> z list -> md5_state

val md5_final : md5_state -> z list

val md5 : z list -> z list

type sha1_words = (((z * z) * z) * z) * z

val sha1_iv : sha1_words

val sha1_Ch : z -> z -> z -> z

val sha1_Parity : z -> z -> z -> z

val sha1_Maj : z -> z -> z -> z

val sha1_rotl1 : z -> z

val sha1_rotl5 : z -> z

val sha1_rotl30 : z -> z

val sha1_next_w : z list -> z

val sha1_expand : nat -> z list -> z list

val sha1_schedule : z list -> z list

val sha1_round : (z -> z -> z -> z) -> z -> sha1_words -> z -> sha1_words

val sha1_rounds :
  nat -> (z -> z -> z -> z) -> z -> sha1_words -> z list -> sha1_words * z
  list

val sha1_compress : sha1_words -> z list -> sha1_words

type sha1_state = sha1_words hstate

val sha1_init : sha1_state

val sha1_update : sha1_state -> z list -> sha1_state

val sha1_final : sha1_state -> z list

val sha1 : z list -> z list

val password_to_master :
  'a1 -> ('a1 -> bytes -> 'a1) -> ('a1 -> bytes) -> z -> bytes -> bytes res

val localize :
  'a1 -> ('a1 -> bytes -> 'a1) -> ('a1 -> bytes) -> z -> bytes -> bytes ->
  bytes res

val xor_const : z -> bytes -> bytes

val const_bytes : nat -> z -> bytes

val sign :
  'a1 -> ('a1 -> bytes -> 'a1) -> ('a1 -> bytes) -> z -> z -> bytes -> bytes
  -> z -> bytes res

type auth_alg =
| ANoAuth
| AMd5
| ASha1

type auth_key = { ak_alg : auth_alg; ak_key : bytes }

val auth_new : z -> auth_key res

val key_size : auth_alg -> z

val has_auth : auth_alg -> bool

val sign_size : auth_alg -> z

val placeholder : auth_alg -> bytes

val md5_p2m : bytes -> bytes res

val sha1_p2m : bytes -> bytes res

val md5_localize : bytes -> bytes -> bytes res

val sha1_localize : bytes -> bytes -> bytes res

val alg_p2m : auth_alg -> bytes -> bytes res

val alg_localize : auth_alg -> bytes -> bytes -> bytes res

val as_key_type : auth_key -> z -> bytes -> bytes -> auth_key res

val alg_sign : auth_key -> bytes -> z -> bytes res

type 'a pyres =
| PyOk of 'a
| PyValueError
| PyDecodeError
| PyPanic

val get_master_key : z -> bytes -> bytes pyres

val get_localized_key : z -> bytes -> bytes -> bytes pyres

val byte_to_bits : z -> bool list

val bytes_to_bits : z list -> bool list

val b2z : bool -> z -> z

val bits_to_byte :
  bool -> bool -> bool -> bool -> bool -> bool -> bool -> bool -> z

val bits_to_bytes : bool list -> z list

val xor_bits : bool list -> bool list -> bool list

val permute : nat list -> bool list -> bool list

val rotl1 : bool list -> bool list

val rotl : nat -> bool list -> bool list

val iP_tbl : nat list

val fP_tbl : nat list

val e_tbl : nat list

val p_tbl : nat list

val pC1_tbl : nat list

val pC2_tbl : nat list

val key_shifts : nat list

val s1 : nat list

val s2 : nat list

val s3 : nat list

val s4 : nat list

val s5 : nat list

val s6 : nat list

val s7 : nat list

val s8 : nat list

val sBOXES : nat list list

val b2n : bool -> nat -> nat

val nibble_bits : nat -> bool list

val sboxes_apply : nat list list -> bool list -> bool list

val des_f : bool list -> bool list -> bool list

val feistel_round :
  (bool list -> bool list -> bool list) -> (bool list * bool list) -> bool
  list -> bool list * bool list

val feistel :
  (bool list -> bool list -> bool list) -> bool list list -> (bool
  list * bool list) -> bool list * bool list

val subkeys_aux : nat list -> bool list -> bool list -> bool list list

val des_subkeys : z list -> bool list list

val des_core : bool list list -> bool list -> bool list

val des_encrypt_with : bool list list -> z list -> z list

val des_encrypt_block : z list -> z list -> z list

val des_decrypt_block : z list -> z list -> z list

val aes_sbox : z list

val sub_byte : z -> z

val xor_list : z list -> z list -> z list

val xtime : z -> z

val sub_bytes : z list -> z list

val shift_rows_tbl : nat list

val shift_rows : z list -> z list

val mix_column : z -> z -> z -> z -> z list

val mix_columns : z list -> z list

val add_round_key : z list -> z list -> z list

val aes_rcon : z list

val next_round_key : z -> z list -> z list

val expand_aux : z list -> z list -> z list list

val aes128_round_keys : z list -> z list list

val aes_round : z list -> z list -> z list

val aes_final_round : z list -> z list -> z list

val aes_rounds : z list -> z list list -> z list

val aes128_encrypt_with : z list list -> z list -> z list

val aes128_encrypt_block : z list -> z list -> z list

val xor_bytes : z list -> z list -> z list

val cbc_encrypt_aux :
  (z list -> z list) -> nat -> nat -> z list -> z list -> z list

val cbc_encrypt : (z list -> z list) -> nat -> z list -> z list -> z list

val cbc_decrypt_aux :
  (z list -> z list) -> nat -> nat -> z list -> z list -> z list

val cbc_decrypt : (z list -> z list) -> nat -> z list -> z list -> z list

val cfb_encrypt_aux :
  (z list -> z list) -> nat -> nat -> z list -> z list -> z list

val cfb_encrypt : (z list -> z list) -> nat -> z list -> z list -> z list

val cfb_decrypt_aux :
  (z list -> z list) -> nat -> nat -> z list -> z list -> z list

val cfb_decrypt : (z list -> z list) -> nat -> z list -> z list -> z list

type priv_alg =
| PNoPriv
| PDes
| PAes

type priv_key = { pk_alg : priv_alg; pk_key : bytes; pk_pre_iv : bytes;
                  pk_salt : z }

val priv_new : z -> priv_key res

val has_priv : priv_alg -> bool

val priv_as_localized : priv_key -> bytes -> z -> priv_key res

val be0 : z -> bytes

val be64 : z -> bytes

val zeros : nat -> bytes

val padded_plaintext : z -> scoped -> bytes res

val priv_encrypt :
  priv_key -> scoped -> z -> z -> priv_key * (bytes * bytes) res

val priv_decrypt_bytes : priv_key -> bytes -> usm -> bytes res

val priv_decrypt : priv_key -> bytes -> usm -> scoped res

type v3sock = { engine_id : bytes; engine_boots : z; engine_time : z;
                user_name : bytes; auth : auth_key; privk : priv_key;
                msg_id : z; request_id : z }

val next_id : z -> z

val install_keys :
  z -> bytes -> z -> bytes -> bytes -> z -> (auth_key * priv_key) res

val v3_new : bytes -> bytes -> z -> bytes -> z -> bytes -> z -> v3sock res

val v3_set_keys :
  v3sock -> bytes -> z -> bytes -> z -> bytes -> z -> v3sock res

val with_priv_msgid : v3sock -> priv_key -> z -> v3sock

val v3_message : v3sock -> pdu -> z -> bytes -> msgdata -> v3msg

val v3_finish : v3sock -> v3msg -> bytes res

val v3_push_pdu : v3sock -> pdu -> z -> v3sock * bytes res

val with_request_id : v3sock -> z -> v3sock

val v3_unwrap : v3sock -> v3msg -> v3sock * pdu option

val v3_unwrap_panics : v3sock -> v3msg -> bool

val v3_recv_loop : v3sock -> bytes list -> v3sock * pdu recv_result
